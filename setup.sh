#!/bin/sh
# MANIFEST.setup_cmd: offline install of the runtime-contract libraries next to the repo's interpreter.
# Idempotent; ./check does the same lazily when .deps is missing. Failing to install is not fatal:
# vf/contracts.py falls back to an in-tree shim with the same ensure/require semantics.
cd "$(dirname "$0")" || exit 1
if [ ! -d .deps/icontract ]; then
  PIP_NO_INDEX=1 /venv/bin/python -m pip install --quiet --no-index --find-links /opt/veriftools/wheels \
      --target .deps icontract deal >/dev/null 2>&1 || echo "setup: wheelhouse install failed, shim will be used"
fi
/venv/bin/python -c "import sys; sys.path.insert(0,'.deps'); import icontract; print('icontract', icontract.__version__)" || true
exit 0
