"""G4 (on-disk part): directory trees over a pool of hidden / built-in-excluded / ordinary names and exclusion lists
drawn from the five unambiguous gitignore pattern classes."""
from __future__ import annotations

import os

HIDDEN = [".git", ".hidden", ".venv", ".cache", ".x"]
BUILTIN_EXCLUDED = ["tests", "test", "build", "node_modules", "venv", "dist", "_build", "buck-out", "__pypackages__"]
ORDINARY = ["src", "lib", "app", "pkg", "docs", "a", "b", "core", "util", "tests2", "testing", "builder", "my.dir", "sp ace", "Vénv"]
SUPPORTED_FILES = ["main.py", "util.py", "app.js", "index.ts", "prog.c", "prog.cpp", "Prog.cs", "Prog.java", "head.h", "view.jsx",
                   "mod.mjs", "x.cc", "y.hpp", "z.cxx", "setup.py", "a.b.py", "test.py", "build.js", "dist.c", "UPPER.PY", "t.pyw",
                   # every file-name pattern Pygments knows for the seven lexers, incl. whole-name patterns without an extension
                   "SConstruct", "SConscript", "BUCK", "BUILD", "BUILD.bazel", "WORKSPACE", "defs.bzl", "stub.pyi", "x.jy", "m.sage", "s.sc",
                   "svc.tac", "e.pye", "x.idc", "icon.xbm", "icon.xpm", "y.c++", "y.h++", "y.hh", "y.hxx", "Y.C", "Y.H", "y.cp", "Y.CPP",
                   "t.tpp", "m.cppm", "m.ixx", "m.mxx", "i.ipp", "m.jsm", "m.cjs", "other.bazel", "BUILD.txt", "build", "Build"]
UNSUPPORTED_FILES = ["README.md", "notes.txt", "data.json", "conf.yml", "lib.rb", "main.go", "style.css", "page.html", "run.sh", "x.py.bak", "a.rs"]
NOEXT_FILES = ["Makefile", "LICENSE", "README", "py", "c", "Dockerfile", "Rakefile", "Gemfile", "PKGBUILD", "NOTES", "makefile", "control", "bashrc"]
HIDDEN_FILES = [".env.py", ".hidden.js", ".gitignore2", ".a.c"]
CONTENTS = {
    ".py": b"def f(a):\n    return a\n\n\ndef g():\n    x = 1\n    return x\n",
    ".js": b"function f(a) {\n  return a;\n}\n", ".ts": b"function f(a: number): number {\n  return a;\n}\n",
    ".c": b"int f(int a) {\n  return a;\n}\n", ".cpp": b"int f(int a) {\n  return a;\n}\n", ".cs": b"class A {\n  int F(int a) {\n    return a;\n  }\n}\n",
    ".java": b"class A {\n  int f(int a) {\n    return a;\n  }\n}\n",
}


def content_for(name, rng):
    ext = os.path.splitext(name)[1].lower()
    base = CONTENTS.get(ext, CONTENTS[".c"] if ext in (".h", ".cc", ".hpp", ".cxx") else CONTENTS[".js"] if ext in (".jsx", ".mjs") else
                        CONTENTS[".py"] if ext == ".pyw" or name in ("BUILD", "BUCK", "WORKSPACE", "SConstruct", "SConscript", "README", "NOTES") else
                        b"just text\n")
    data = base + (b"// v%d\n" % rng.randint(0, 9) if ext not in (".py", ".pyw", ".md", ".txt") else b"# v%d\n" % rng.randint(0, 9))
    k = rng.random()
    if k < 0.12:
        data = data.replace(b"\n", b"\r\n")                      # CRLF
    elif k < 0.16:
        data = data.replace(b"\n", b"\r")                        # old Mac line ends
    elif k < 0.24:
        data = data + "# caf\xe9 \xfc\xdf\n".encode("latin-1") if ext in (".py", ".pyw") else data + "// caf\xe9 \xfc\xdf\n".encode("latin-1")
    elif k < 0.28:
        data = b"\xef\xbb\xbf" + data                          # UTF-8 BOM
    elif k < 0.31:
        data = data.rstrip(b"\n")                               # no final newline
    elif k < 0.33:
        data = b""
    return data


def random_tree(rng, max_dirs=10, max_files=24):
    """{relative path: bytes}"""
    dirs = [()]
    for _ in range(rng.randint(0, max_dirs)):
        base = rng.choice(dirs)
        if len(base) >= 5:
            continue
        k = rng.random()
        name = rng.choice(HIDDEN) if k < 0.15 else rng.choice(BUILTIN_EXCLUDED) if k < 0.35 else rng.choice(ORDINARY)
        d = base + (name,)
        if d not in dirs:
            dirs.append(d)
    files = {}
    for _ in range(rng.randint(1, max_files)):
        d = rng.choice(dirs)
        k = rng.random()
        name = rng.choice(SUPPORTED_FILES) if k < 0.6 else rng.choice(UNSUPPORTED_FILES) if k < 0.8 else \
            rng.choice(NOEXT_FILES) if k < 0.9 else rng.choice(HIDDEN_FILES)
        p = d + (name,)
        if p in dirs or any(p == dd[:len(p)] for dd in dirs):
            continue
        files["/".join(p)] = content_for(name, rng)
    return files


def random_exclusions(rng, files):
    """patterns from the five classes, mostly referring to names that occur in the tree"""
    comps = sorted({c for f in files for c in f.split("/")[:-1]} | {"nothere"})
    names = sorted({f.split("/")[-1] for f in files} | {"absent.py"})
    exts = sorted({os.path.splitext(n)[1] for n in names if os.path.splitext(n)[1]} | {".zzz"})
    pats = []
    for _ in range(rng.choice([0, 1, 1, 2, 3])):
        k = rng.random()
        if k < 0.25:
            pats.append(rng.choice(comps + names))                      # bare name
        elif k < 0.45:
            pats.append(rng.choice(comps) + "/")                        # dir/
        elif k < 0.65:
            pats.append("*" + rng.choice(exts))                          # *.ext
        elif k < 0.85:
            f = rng.choice(sorted(files))
            parts = f.split("/")
            if len(parts) >= 2:
                n = rng.randint(2, len(parts))
                pats.append("/".join(parts[:n]))                          # anchored a/b
            else:
                pats.append(rng.choice(comps) + "/" + rng.choice(names))
        else:
            pats.append(rng.choice(comps) + "/*")                        # a/*
    return [p for p in pats if not any(ch in p for ch in "[]!#\\?") and not p.startswith(" ") and p.strip() == p]


def materialise(root, files):
    for rel, data in files.items():
        p = os.path.join(root, *rel.split("/"))
        os.makedirs(os.path.dirname(p), exist_ok=True)
        with open(p, "wb") as f:
            f.write(data)
