"""G4 - random codebases (file entries with measurements), reports and string fields."""
from __future__ import annotations

LANG_EXT = {"C": ".c", "C++": ".cpp", "C#": ".cs", "Java": ".java", "JavaScript": ".js", "TypeScript": ".ts", "Python": ".py"}
NAMES = ["src", "lib", "app", "core", "util", "a", "b", "pkg", "main", "x.y", "deep", "mod_1", "Über", "日本", "sp ace",
         # names that sort before / after "./" and before / after letters: ordering assumptions about tree keys
         "-attic", "(legacy)", "$lib", "+plus", "#hash", "!bang", " lead", "&and", "'q", ",c", "%p", "..dots", ".-x", "0num", "9z", "@at", "[br]",
         "_us", "~tilde", "Zed", "{cur}", "^hat", "`tick", "=eq", ";semi"]
BOUNDARY = [1, 2, 14, 15, 16, 17, 29, 30, 31, 32, 59, 60, 61, 62, 100, 400]
PLAIN_CHARS = "abcXYZ019_-."
HOSTILE_PIECES = ['"', "\\", "\\\\", "\\n", "\n", "\t", "\r", "\x00", "\x01", "\x1f", "\x7f", "/", "'", "{", "}", "[", "]", ":", ",",
                  "é", "ß", "Ω", "日本語", "😀", "e\u0301", "\u2028", "\u2029", "\ud7ff", "\ufeff", "%s", "{0}", "${x}", "</script>",
                  "\\u0041", "\\\"", " ", "  ", "\"quoted\"", "C:\\dir\\f.py", "a\"b", "tab\there", "null", "true", "-1"]


def rel_paths(rng, n, max_depth=6, hostile=False):
    """n distinct relative file paths with shared prefixes; no path is a prefix-directory of another file"""
    dirs = [()]
    for _ in range(rng.randint(0, max(1, n))):
        base = rng.choice(dirs)
        if len(base) < max_depth:
            dirs.append(base + (hostile_component(rng) if hostile and rng.random() < 0.4 else rng.choice(NAMES),))
    files, seen, dirset = [], set(), set(dirs)
    tries = 0
    while len(files) < n and tries < 50 * n + 50:
        tries += 1
        d = rng.choice(dirs)
        lang = rng.choice(list(LANG_EXT))
        stem = hostile_component(rng) if hostile and rng.random() < 0.4 else rng.choice(["f", "main", "util", "X", "mod", "t est", "a.b"]) + str(rng.randint(0, 30))
        p = d + (stem + LANG_EXT[lang],)
        if p in seen or p in dirset:
            continue
        seen.add(p)
        files.append(("/".join(p), lang))
    return files


def hostile_component(rng):
    k = rng.randint(1, 3)
    s = "".join(rng.choice(HOSTILE_PIECES + list(PLAIN_CHARS)) for _ in range(k))
    s = s.replace("/", "∕")
    if s in ("", ".", "..") or s.strip() == "":
        s = "h" + s.replace(".", "d")
    return s


def hostile_string(rng, max_pieces=4):
    return "".join(rng.choice(HOSTILE_PIECES + list(PLAIN_CHARS)) for _ in range(rng.randint(0, max_pieces)))


def lengths(rng, max_functions=12):
    n = rng.choice([0, 1, 1, 2, 3, rng.randint(0, max_functions)])
    return [rng.choice(BOUNDARY + [rng.randint(1, 90)]) for _ in range(n)]


def entry_spec(rng, path, lang, hostile=False):
    ls = lengths(rng)
    ms = []
    line = 1
    for i, v in enumerate(ls):
        name = hostile_string(rng) if hostile and rng.random() < 0.5 else f"fn{i}"
        ms.append([name, [line, rng.randint(1, 9)], [line + v, rng.randint(1, 9)], v])
        line += v + rng.randint(1, 3)
    checksum = "%032x" % rng.getrandbits(128)
    return {"path": path, "checksum": checksum, "language": lang, "loc": sum(ls), "measurements": ms}


def codebase_spec(rng, max_files=25, hostile=False, max_depth=6):
    n = rng.choice([0, 1, 1, 2, 3, 5, rng.randint(0, max_files)])
    files = rel_paths(rng, n, max_depth, hostile)
    entries = [entry_spec(rng, p, lang, hostile) for p, lang in files]
    rng.shuffle(entries)
    root = "/" + "/".join(rng.choice(NAMES) for _ in range(rng.randint(1, 3)))
    if hostile and rng.random() < 0.5:
        root = "/" + hostile_string(rng).replace("\x00", "0")
    return {"root": root, "entries": entries}


def build_codebase(spec):
    """real Codebase from a spec, through the real add_file in spec order; aggregate() is NOT called here"""
    import vf  # noqa: F401
    from codelimit.common.Codebase import Codebase
    from codelimit.common.Location import Location
    from codelimit.common.Measurement import Measurement
    from codelimit.common.SourceFileEntry import SourceFileEntry

    cb = Codebase(spec["root"])
    for e in spec["entries"]:
        ms = [Measurement(n, Location(*s), Location(*t), v) for n, s, t, v in e["measurements"]]
        cb.add_file(SourceFileEntry(e["path"], e["checksum"], e["language"], e["loc"], ms))
    return cb
