"""G1 - canonical programs with by-construction ground truth, for the seven supported languages.

The generator *writes* a program token by token. Every emitted token carries the id of the innermost named
function that owns it (None = global / class level). A function's span is [first token of its header, last token
of its body]; header shapes are the ones each language is documented to recognise (DESIGN.md section 3.1).
From the tagged tokens the ground truth (name, start, end, length) follows without running codelimit.

Everything is deterministic in (seed, language, features).
"""
from __future__ import annotations

import random
from dataclasses import dataclass, field

LANGS = ["C", "C++", "C#", "Java", "JavaScript", "TypeScript", "Python"]
EXT = {"C": ".c", "C++": ".cpp", "C#": ".cs", "Java": ".java", "JavaScript": ".js", "TypeScript": ".ts", "Python": ".py"}
NESTS = {"C": False, "C++": True, "C#": True, "Java": True, "JavaScript": True, "TypeScript": True, "Python": True}

# feature flags; each can be switched off, which replaces the construct in place by a neutral one
FEATURES = [
    "nested",            # named functions nested in function bodies (where the language nests)
    "nested_first", "nested_middle", "nested_last",  # position of a nested function in its parent's body
    "deep",              # nesting depth up to 4
    "comments", "block_comments", "trailing_comments", "blank",
    "delim_strings",     # string/char literals containing { } ( ) // /* #
    "multiline_header", "brace_next_line",
    "brace_params",      # parameter lists containing brace groups
    "call_params",       # calls / annotations with arguments inside parameter lists
    "paren_strings",     # string literals "(" or ")" in parameter defaults
    "async",
    "control", "initialisers", "anon", "classes", "global_code",
    "long", "oneline", "throws", "return_types", "qualified", "decorators", "docstrings", "multiline_calls",
    "let_prefix", "rich_params", "rich_types", "annotations",
]
DEFAULT_ON = set(FEATURES)


@dataclass
class Tok:
    text: str
    owner: object = None
    code: bool = True
    glue: bool = False       # no blank before this token
    kind: str = ""           # expectation for the self-check: name | kw | punct | "" (unchecked)
    line: int = 0
    col: int = 0


@dataclass
class Func:
    fid: int
    name: str
    parent: object
    depth: int
    first: Tok = None
    last: Tok = None
    name_tok: Tok = None
    features: tuple = ()
    qual_prefix: str = ""


@dataclass
class Truth:
    name: str
    start: tuple
    end: tuple
    length: int
    depth: int
    parent: object
    qual_prefix: str = ""   # C++ 'Klass::' written in front of the name; the lexer decides whether it is part of the name token

    def as_list(self):
        return [self.name, list(self.start), list(self.end), self.length]


@dataclass
class Program:
    language: str
    text: str
    truth: list
    features: tuple
    used: dict
    tokens: list = field(default_factory=list, repr=False)
    seed: object = None


IDENTS = ["alpha", "beta", "gamma", "delta", "calc", "total", "item", "node", "value", "helper", "count", "index",
          "result", "buffer", "entry", "handle", "left", "right", "width", "height", "amount", "offset", "cursor"]
TYPES = {"C": ["int", "void", "double", "char"], "C++": ["int", "void", "double", "bool"],
         "C#": ["int", "void", "double", "bool"], "Java": ["int", "void", "double", "boolean"]}
LINE_COMMENT = {"Python": "#"}
COMMENT_WORDS = ["note", "todo: later", "see above", "x = 1; {", "if (a) { b(); }", "def f(): pass", "function g() {",
                 "fix (this) }", "", "explains nocl here"]


class Gen:
    def __init__(self, language, seed, features=None, target_functions=None, max_depth=None, lengths=None):
        self.lang = language
        self.rng = random.Random(f"{seed}/{language}") if not isinstance(seed, random.Random) else seed
        self.seed = seed
        self.F = set(DEFAULT_ON if features is None else features)
        self.lines: list[list[Tok]] = []
        self.indents: list[int] = []
        self.funcs: list[Func] = []
        self.used: dict = {}
        self.names = 0
        self.py = language == "Python"
        self.js = language in ("JavaScript", "TypeScript")
        self.ts = language == "TypeScript"
        self.typed = language in TYPES
        self.max_depth = max_depth if max_depth is not None else (4 if "deep" in self.F else 2)
        self.target_functions = target_functions or self.rng.randint(3, 9)
        self.lengths = lengths
        self.unit = 4 if self.py else self.rng.choice([2, 4])
        self.quiet = False

    # ---------------------------------------------------------------- helpers
    def use(self, feature):
        self.used[feature] = self.used.get(feature, 0) + 1

    def on(self, feature, p=0.5):
        if feature in self.F and self.rng.random() < p:
            self.use(feature)
            return True
        return False

    def ident(self, prefix=None):
        self.names += 1
        base = prefix or self.rng.choice(IDENTS)
        return f"{base}{self.names}"

    def var(self):
        return self.rng.choice(["a", "b", "c", "n", "x", "y"]) + str(self.rng.randint(1, 9))

    def line(self, toks, indent):
        self.lines.append(list(toks))
        self.indents.append(indent)

    def T(self, text, owner, kind="", glue=False, code=True):
        return Tok(text, owner, code, glue, kind)

    def words(self, s, owner):
        """split a spaced string into tokens owned by `owner`"""
        return [self.T(w, owner) for w in s.split()]

    # ---------------------------------------------------------------- comments / blanks
    def comment_line(self, indent):
        w = self.rng.choice(COMMENT_WORDS)
        lead = "#" if self.py else "//"
        return [self.T(f"{lead} {w}".rstrip() if w else lead, None, code=False)]

    def maybe_noise(self, indent):
        """blank lines and comment-only lines between two lines"""
        r = self.rng
        if self.on("blank", 0.12):
            self.line([], 0)
            if r.random() < 0.2:
                self.line([], 0)
        if self.on("comments", 0.12):
            self.line(self.comment_line(indent), indent if r.random() < 0.8 else 0 if not self.py else indent)
        if not self.py and self.on("block_comments", 0.06):
            k = r.randint(0, 3)
            body = "/* " + r.choice(COMMENT_WORDS) + "".join(
                "\n" + " " * indent + " * " + r.choice(COMMENT_WORDS) for _ in range(k)) + (" */" if k == 0 else "\n" + " " * indent + " */")
            self.line([self.T(body, None, code=False)], indent)

    def trailing(self, toks):
        if self.on("trailing_comments", 0.1):
            lead = "#" if self.py else "//"
            if not self.py and self.rng.random() < 0.3:
                toks.append(self.T("/* " + self.rng.choice(["x", "y {", "(", "note"]) + " */", None, code=False))
            else:
                toks.append(self.T(f"{lead} " + self.rng.choice(COMMENT_WORDS), None, code=False))
        return toks

    def append_code(self, tok):
        """append a code token to the last emitted line, before any trailing comment"""
        ln = self.lines[-1]
        i = len(ln)
        while i > 0 and not ln[i - 1].code:
            i -= 1
        ln.insert(i, tok)

    def emit(self, toks, indent):
        if self.quiet:
            self.line(list(toks), indent)
            return
        self.maybe_noise(indent)
        self.line(self.trailing(list(toks)), indent)

    # ---------------------------------------------------------------- expressions
    def literal_string(self, owner):
        r = self.rng
        payload = r.choice(["{ ( } )", "// not a comment", "/* x */", "# no", "}", "{", ")(", "a{b}c", "() => {", "def f():",
                            "function f() {"])
        if self.py:
            q = r.choice(['"', "'"])
            return self.T(f"{q}{payload}{q}", owner)
        if self.js and r.random() < 0.4:
            return self.T(f"'{payload}'", owner)
        return self.T(f'"{payload}"', owner)

    def literal_char(self, owner):
        c = self.rng.choice(["{", "}", "(", ")", "#", "/"])
        if self.py or self.js:
            return self.T(f"'{c}'", owner)
        return self.T(f"'{c}'", owner)

    def expr(self, owner, depth=0):
        r = self.rng
        k = r.random()
        if k < 0.3 or depth > 2:
            return [self.T(self.var(), owner)]
        if k < 0.45:
            return [self.T(str(r.randint(0, 99)), owner)]
        if k < 0.7:
            return self.expr(owner, depth + 1) + [self.T(r.choice(["+", "-", "*"]), owner)] + self.expr(owner, depth + 1)
        if k < 0.92:
            return self.call(owner, depth + 1)
        if "delim_strings" in self.F:
            self.use("delim_strings")
            return [self.literal_string(owner) if r.random() < 0.7 else self.literal_char(owner)]
        return [self.T(self.var(), owner)]

    def call(self, owner, depth=0):
        r = self.rng
        name = r.choice(["run", "apply", "compute", "check", "emit", "load"]) + str(r.randint(1, 9))
        toks = [self.T(name, owner), self.T("(", owner, glue=r.random() < 0.8)]
        n = r.randint(0, 3)
        for i in range(n):
            if i:
                toks.append(self.T(",", owner, glue=True))
            toks += self.expr(owner, depth + 1)
        toks.append(self.T(")", owner, glue=r.random() < 0.8))
        return toks

    def semi(self, owner):
        return [] if self.py else [self.T(";", owner, glue=True)]

    # ---------------------------------------------------------------- simple statements
    def simple_statement(self, owner, indent):
        r = self.rng
        k = r.random()
        if k < 0.35:
            pre = []
            if self.typed:
                pre = [self.T(r.choice(["int", "double"]), owner)]
            elif self.js:
                pre = [self.T(r.choice(["let", "var"]), owner)] if r.random() < 0.6 else []
            toks = pre + [self.T(self.var(), owner), self.T("=", owner)] + self.expr(owner) + self.semi(owner)
            self.emit(toks, indent)
        elif k < 0.6:
            self.emit(self.call(owner) + self.semi(owner), indent)
        elif k < 0.7 and owner is not None:
            self.emit([self.T("return", owner)] + self.expr(owner) + self.semi(owner), indent)
        elif k < 0.8 and "multiline_calls" in self.F:
            self.use("multiline_calls")
            name = "wide" + str(r.randint(1, 9))
            self.emit([self.T(name, owner), self.T("(", owner, glue=True)], indent)
            n = r.randint(1, 3)
            for i in range(n):
                self.emit(self.expr(owner) + ([self.T(",", owner, glue=True)] if i < n - 1 else []), indent + 2 * self.unit)
            self.emit([self.T(")", owner)] + self.semi(owner), indent + (self.unit if self.py else 0))
        elif k < 0.9 and "delim_strings" in self.F:
            self.use("delim_strings")
            pre = [self.T("const", owner), self.T("char", owner), self.T("*", owner)] if self.lang in ("C", "C++") else \
                [self.T("String", owner)] if self.lang == "Java" else [self.T("string", owner)] if self.lang == "C#" else \
                [self.T("const", owner)] if self.js else []
            self.emit(pre + [self.T(self.var(), owner), self.T("=", owner), self.literal_string(owner)] + self.semi(owner), indent)
        else:
            self.emit([self.T(self.var(), owner), self.T("=", owner)] + self.expr(owner) + self.semi(owner), indent)

    # ---------------------------------------------------------------- dispatch
    def generate(self):
        if self.py:
            self.py_module()
        else:
            self.brace_module()
        return self.finish()

    # ================================================================= brace languages
    def open_brace(self, owner, header_toks, indent, quiet_first=False):
        """emit header tokens followed by '{' on the same or the next line"""
        if self.on("brace_next_line", 0.25):
            self.quiet = quiet_first
            self.emit(header_toks, indent)
            self.quiet = False
            self.emit([self.T("{", owner, kind="punct")], indent)
        else:
            if quiet_first:
                self.line(header_toks + [self.T("{", owner, kind="punct")], indent)
            else:
                self.emit(header_toks + [self.T("{", owner, kind="punct")], indent)

    def close_brace(self, owner, indent, extra=()):
        t = self.T("}", owner, kind="punct")
        self.emit([t] + list(extra), indent)
        return t

    def params(self, f):
        """parameter tokens (without the parentheses); may span lines -> returns list of lists (lines)"""
        r = self.rng
        o = f.fid
        n = r.randint(0, 3)
        groups = []
        for i in range(n):
            groups.append(self.one_param(o, i))
        special = []
        if self.lang in ("C", "C++", "JavaScript", "TypeScript") and self.on("brace_params", 0.2):
            special.append(self.brace_param(o))
        if self.on("call_params", 0.2):
            special.append(self.call_param(o))
        if self.lang in ("C++", "C#", "JavaScript", "TypeScript") and self.on("paren_strings", 0.1):
            special.append(self.paren_string_param(o))
        for s in special:
            groups.insert(r.randint(0, len(groups)), s)
        return groups

    RICH_PARAMS = {
        "C": ["const char * {v}", "int {v} [ ]", "struct node * {v}", "unsigned long {v}", "void ( * {v} ) ( int )", "char * * {v}"],
        "C++": ["const std::string & {v}", "std::vector < int > {v}", "int * {v} = nullptr", "Box && {v}", "const char * {v}",
                "std::map < int , Box > & {v}", "void ( * {v} ) ( int )"],
        "C#": ["List < int > {v}", "string [ ] {v}", "ref int {v}", "out int {v}", "params object [ ] {v}", "int ? {v} = null",
               "Dictionary < string , List < int > > {v}", "System.IO.Stream {v}"],
        "Java": ["List < String > {v}", "String [ ] {v}", "final int {v}", "int ... {v}", "Map < String , List < Integer > > {v}",
                 "java.util.List < String > {v}", "final java.io.File {v}"],
        "TypeScript": ["{v} : number [ ]", "{v} : ( a : number ) => void", "{v} : Map < string , number >", "{v} ? : string",
                       "... {v} : number [ ]", "{v} : string | null = null", "{v} : Array < { id : number } >"],
        "JavaScript": ["... {v}", "[ {v} , other ]", "{v} = [ 1 , 2 ]", "{v} = null", "{v} = ( 1 + 2 )"],
        "Python": ["* {v}", "** {v}", "{v} : list [ int ] = None", "{v} : \"str\" = \"x\"", "{v} : dict [ str , tuple [ int , int ] ] = { }",
                   "{v} = ( 1 , ( 2 , 3 ) )"],
    }

    def one_param(self, o, i):
        r = self.rng
        v = "p" + str(i) + r.choice("abc")
        if "rich_params" in self.F and r.random() < 0.3:
            self.use("rich_params")
            shapes = self.RICH_PARAMS[self.lang]
            if self.lang in ("JavaScript", "TypeScript", "Python", "Java", "C#") and i != 9:
                shapes = [s for s in shapes if not s.startswith(("...", "* ", "** ", "params")) and "..." not in s] or shapes
            return self.words(r.choice(shapes).replace("{v}", v), o)
        if self.typed:
            return [self.T(r.choice(["int", "double"]), o), self.T(v, o)]
        if self.ts:
            t = [self.T(v, o), self.T(":", o, glue=True), self.T(r.choice(["number", "string", "boolean"]), o)]
            if r.random() < 0.2:
                t += [self.T("=", o), self.T(str(r.randint(0, 9)), o)]
            return t
        t = [self.T(v, o)]
        if r.random() < 0.2:
            t += [self.T("=", o), self.T(str(r.randint(0, 9)), o)]
        return t

    def brace_param(self, o):
        r = self.rng
        if self.lang == "C":
            return self.words("struct { int x ; int y ; }", o) + [self.T("sp" + str(r.randint(1, 9)), o)]
        if self.lang == "C++":
            return self.words("Box bx = { 1 , 2 }", o)
        if self.lang == "JavaScript":
            return r.choice([self.words("{ k1 , k2 }", o), self.words("opt = { x : 1 }", o), self.words("{ k1 , k2 } = { }", o)])
        return r.choice([self.words("{ k1 , k2 } : { k1 : number ; k2 : number }", o), self.words("opt : { x : number }", o),
                         self.words("opt = { x : 1 }", o)])

    def call_param(self, o):
        r = self.rng
        if self.lang == "C":
            return self.words("UNUSED ( int uv )", o)
        if self.lang == "C++":
            return self.words("int dv = limit ( 1 )", o)
        if self.lang == "Java":
            return [self.T("@Size", o), self.T("(", o, glue=True), self.T("1", o, glue=True), self.T(")", o, glue=True),
                    self.T("int", o), self.T("sv", o)]
        if self.lang == "C#":
            return self.words("[ Range ( 1 ) ] int rv", o)
        if self.ts:
            return self.words("dv : number = limit ( 1 )", o)
        return self.words("dv = limit ( 1 )", o)

    def paren_string_param(self, o):
        s = self.rng.choice(['"("', '")"', '"(("'])
        if self.lang == "C++":
            return self.words("const char * ps =", o) + [self.T(s, o)]
        if self.lang == "C#":
            return self.words("string ps =", o) + [self.T(s, o)]
        if self.ts:
            return self.words("ps : string =", o) + [self.T(s, o)]
        return self.words("ps =", o) + [self.T(s, o)]

    def brace_function(self, owner, indent, depth, form=None, in_class=False):
        """Emit one named function whose enclosing named function is `owner` (or None)."""
        r = self.rng
        f = Func(len(self.funcs), self.ident("fn" if r.random() < 0.5 else None), owner, depth)
        self.funcs.append(f)
        o = f.fid
        prefix, head, tail = [], [], []
        name = self.T(f.name, o, kind="name")
        f.name_tok = name
        lang = self.lang
        if self.js:
            forms = ["method", "method", "arrow"] if in_class else ["function", "function", "arrow"]
            form = form or r.choice(forms)
            if form == "function":
                if self.on("async", 0.15):
                    prefix.append(self.T("async", owner))
                head = [self.T("function", o, kind="kw"), name]
            elif form == "method":
                if r.random() < 0.2:
                    prefix.append(self.T("static", owner))
                head = [name]
            else:
                c = r.random()
                if c < 0.6:
                    head = [self.T("const", o, kind="kw"), name, self.T("=", o)]
                elif c < 0.8 and "let_prefix" in self.F and not in_class:
                    self.use("let_prefix")
                    prefix.append(self.T(r.choice(["let", "var"]), owner))
                    head = [name, self.T("=", o)]
                else:
                    if in_class:
                        head = [name, self.T("=", o)]
                    else:
                        head = [self.T("const", o, kind="kw"), name, self.T("=", o)]
                if self.on("async", 0.2):
                    head.append(self.T("async", o, kind="kw"))
        else:
            form = "function"
            if lang in ("Java", "C#"):
                if r.random() < 0.7 and (in_class or lang == "Java"):
                    prefix.append(self.T(r.choice(["public", "private", "protected"]), owner))
                if r.random() < 0.3:
                    prefix.append(self.T("static", owner))
                if lang == "C#" and self.on("async", 0.1):
                    prefix.append(self.T("async", owner))
            elif r.random() < 0.2:
                prefix.append(self.T("static", owner))
            if "rich_types" in self.F and r.random() < 0.25:
                self.use("rich_types")
                rich = {"C": ["const char *", "struct node *", "unsigned long", "static inline int"],
                        "C++": ["std::string", "const Box &", "std::vector < int >", "virtual int", "template < typename T > T"],
                        "C#": ["Task < int >", "int ?", "string [ ]", "List < string >", "override int", "System.IO.Stream"],
                        "Java": ["List < String >", "int [ ]", "java.util.Map < String , Integer >", "synchronized int", "final String", "< T > T"]}[lang]
                prefix += self.words(r.choice(rich), owner)
            else:
                prefix.append(self.T(r.choice(TYPES[lang]), owner))
            if lang == "C++" and not in_class and owner is None and self.on("qualified", 0.15):
                # Pygments lexes 'Klass::name' in a definition as ONE Name.Function token: that is the function's name
                f.qual_prefix = "Klass::"
                f.name = "Klass::" + f.name
                name.text = f.name
            head = [name]
        f.first = head[0]
        if self.on("annotations", 0.15) and (lang not in ("JavaScript",)) and (not self.js or in_class):
            ann = {"Java": ["@Override", "@SuppressWarnings ( \"unchecked\" )", "@Test ( timeout = 100 )", "@Deprecated"],
                   "C#": ["[ Obsolete ]", "[ TestCase ( 1 , 2 ) ]", "[ MethodImpl ( MethodImplOptions.NoInlining ) ]"],
                   "TypeScript": ["@HostListener ( 'click' )", "@Input ( )", "@log"],
                   "C++": ["[[nodiscard]]", "[[deprecated ( \"old\" )]]"],
                   "C": ["__attribute__ ( ( unused ) )", "__attribute__ ( ( format ( printf , 1 , 2 ) ) )"]}[lang]
            a = self.words(r.choice(ann), owner)
            if lang == "C#" and r.random() < 0.3:
                # an attribute section broken across lines is ONE Name.Attribute token for Pygments: its line is where it begins
                pad = " " * (indent + 4)
                a = [self.T(r.choice([f"[TestCase(1,\n{pad}2)]", f"[\n{pad}Obsolete\n{pad}]", f"[Route(\n{pad}\"x\")]"]), owner, kind="multiline")]
                self.emit(a, indent)
                a = []
            if not a:
                pass
            elif r.random() < 0.6 or lang in ("C++",):
                self.emit(a, indent)  # on its own line, above the header
            else:
                prefix = a + prefix   # on the header line, before the modifiers
        groups = self.params(f)
        lp = self.T("(", o, kind="punct", glue=r.random() < 0.85)
        rp = self.T(")", o, kind="punct", glue=True)
        if form == "arrow":
            tail = [self.T("=>", o)]
        elif self.ts and self.on("return_types", 0.4):
            tail = [self.T(":", o, glue=True)] + self.words(r.choice(["number", "void", "string", "number [ ]", "Promise < number >",
                                                                       "Map < string , number >", "string | null"]), o)
        elif lang == "Java" and self.on("throws", 0.25):
            names = ["Exception", "IOException", "java.io.IOException", "java.util.concurrent.TimeoutException", "MyError", "pkg.Inner.Err"]
            tail = [self.T("throws", o, kind="kw"), self.T(r.choice(names), o)]
            while r.random() < 0.4:
                tail += [self.T(",", o, glue=True), self.T(r.choice(names), o)]
        oneline = self.on("oneline", 0.08)
        if groups and not oneline and self.on("multiline_header", 0.2):
            # parameters on their own lines (the Pygments C and C++ lexers do not recognise comments inside a
            # function signature, so no comments are placed there for these two languages)
            self.maybe_noise(indent)
            self.quiet = lang in ("C", "C++")
            self.emit(prefix + head + [lp], indent)
            for i, g in enumerate(groups):
                self.emit(g + ([self.T(",", o, glue=True)] if i < len(groups) - 1 else []), indent + 2 * self.unit)
            self.quiet = False
            header_rest = [rp] + tail
            rp.glue = False
            first_line = None
        else:
            flat = []
            for i, g in enumerate(groups):
                if i:
                    flat.append(self.T(",", o, glue=True))
                flat += g
                if flat and i == 0:
                    g[0].glue = True
            header_rest = None
            first_line = prefix + head + [lp] + flat + [rp] + tail
        if oneline:
            body = [self.T("return", o)] + self.expr(o) + [self.T(";", o, glue=True)] if r.random() < 0.8 else []
            close = self.T("}", o, kind="punct")
            self.emit(first_line + [self.T("{", o, kind="punct")] + body + [close] + self.after_function(form, in_class, owner), indent)
            f.last = close
            return f
        if first_line is not None:
            self.open_brace(o, first_line, indent)
        else:
            self.open_brace(o, header_rest, indent, quiet_first=lang in ("C", "C++"))
        self.brace_body(f, indent + self.unit)
        close = self.T("}", o, kind="punct")
        self.emit([close] + self.after_function(form, in_class, owner), indent)
        f.last = close
        return f

    def after_function(self, form, in_class, owner):
        if form == "arrow":
            return [self.T(";", owner, glue=True)] if self.rng.random() < 0.7 else []
        return []

    def target_len(self):
        r = self.rng
        if self.lengths:
            return self.lengths.pop(0) if self.lengths else 5
        if "long" in self.F:
            k = r.random()
            if k < 0.03:
                self.use("long")
                return r.randint(100, 400)
            if k < 0.25:
                self.use("long")
                return r.randint(28, 75)
        return r.randint(0, 12)

    def brace_body(self, f, indent):
        r = self.rng
        o = f.fid
        n_stmt = self.target_len()
        can_nest = NESTS[self.lang] and "nested" in self.F and f.depth + 1 < self.max_depth
        nest_positions = set()
        if can_nest and r.random() < (0.45 if f.depth == 0 else 0.3):
            for pos in ("first", "middle", "last"):
                if "nested_" + pos in self.F and r.random() < 0.4:
                    nest_positions.add(pos)
        if "first" in nest_positions:
            self.use("nested_first")
            self.nested_in_body(f, indent)
        mid_at = r.randint(0, max(0, n_stmt)) if "middle" in nest_positions else None
        i = 0
        while i < n_stmt:
            if mid_at is not None and i == mid_at and i > 0:
                self.use("nested_middle")
                self.nested_in_body(f, indent)
                mid_at = None
            i += self.statement(f, indent, budget=n_stmt - i)
        if mid_at is not None:
            # keep it in the middle: one statement before and one after
            self.simple_statement(o, indent)
            self.use("nested_middle")
            self.nested_in_body(f, indent)
            self.simple_statement(o, indent)
        if "last" in nest_positions:
            self.use("nested_last")
            self.nested_in_body(f, indent)

    def nested_in_body(self, f, indent):
        """a named function nested in f's body, in the way the language nests"""
        r = self.rng
        o = f.fid
        self.use("nested")
        lang = self.lang
        if self.js:
            k = r.random()
            if k < 0.7:
                self.brace_function(o, indent, f.depth + 1)
            elif k < 0.85:
                cname = self.ident("Klass")
                self.open_brace(o, [self.T("class", o), self.T(cname, o)], indent)
                for _ in range(r.randint(1, 2)):
                    self.brace_function(o, indent + self.unit, f.depth + 1, form="method", in_class=True)
                self.close_brace(o, indent)
            else:
                self.open_brace(o, [self.T("const", o), self.T(self.var(), o), self.T("=", o)], indent)
                for _ in range(r.randint(1, 2)):
                    self.brace_function(o, indent + self.unit, f.depth + 1, form="method", in_class=True)
                    self.append_code(self.T(",", o, glue=True))
                self.close_brace(o, indent, [self.T(";", o, glue=True)])
        elif lang == "C#":
            self.brace_function(o, indent, f.depth + 1)  # local function
        elif lang == "Java" and r.random() < 0.5:
            v = self.var()  # anonymous class with methods
            self.open_brace(o, self.words(f"Runnable {v} = new Runnable", o) + [self.T("(", o, glue=True), self.T(")", o, glue=True)], indent)
            for _ in range(r.randint(1, 2)):
                self.brace_function(o, indent + self.unit, f.depth + 1, in_class=True)
            self.close_brace(o, indent, [self.T(";", o, glue=True)])
        else:
            kw = "struct" if lang == "C++" else "class"
            cname = self.ident("Local")
            self.open_brace(o, [self.T(kw, o), self.T(cname, o)], indent)
            if r.random() < 0.5:
                self.emit([self.T("int", o), self.T(self.var(), o), self.T(";", o, glue=True)], indent + self.unit)
            for _ in range(r.randint(1, 2)):
                self.brace_function(o, indent + self.unit, f.depth + 1, in_class=True)
            self.close_brace(o, indent, [self.T(";", o, glue=True)] if lang == "C++" else [])

    def statement(self, f, indent, budget):
        """one statement owned by f (or global when f is None); returns the number of 'units' spent"""
        r = self.rng
        o = f.fid if f is not None else None
        k = r.random()
        if k < 0.62 or budget < 3:
            self.simple_statement(o, indent)
            return 1
        if k < 0.8 and "control" in self.F and o is not None:
            self.use("control")
            return self.control(f, indent, budget)
        if k < 0.88 and "initialisers" in self.F:
            self.use("initialisers")
            return self.initialiser(o, indent)
        if k < 0.97 and "anon" in self.F and self.lang != "C":
            self.use("anon")
            return self.anonymous(f, indent, budget)
        if o is not None and r.random() < 0.5:
            # a bare nested block
            self.emit([self.T("{", o)], indent)
            self.simple_statement(o, indent + self.unit)
            self.emit([self.T("}", o)], indent)
            return 3
        self.simple_statement(o, indent)
        return 1

    def cond(self, o):
        r = self.rng
        k = r.random()
        if k < 0.4:
            return [self.T(self.var(), o), self.T(r.choice(["<", ">", "=="]), o), self.T(str(r.randint(0, 9)), o)]
        if k < 0.8:
            return self.call(o, 2)
        return [self.T("!", o), self.T(self.var(), o, glue=True)]

    def block_body(self, f, indent, n):
        i = 0
        while i < n:
            i += self.statement(f, indent, budget=max(1, n - i))

    def control(self, f, indent, budget):
        r = self.rng
        o = f.fid
        n = r.randint(1, max(1, min(4, budget - 2)))
        kind = r.choice(["if", "ifelse", "for", "while", "switch", "try", "do"])
        if kind in ("if", "ifelse"):
            self.open_brace(o, [self.T("if", o, kind="kw"), self.T("(", o)] + self.cond(o) + [self.T(")", o, glue=True)], indent)
            self.block_body(f, indent + self.unit, n)
            if kind == "ifelse":
                if r.random() < 0.5:
                    self.emit([self.T("}", o), self.T("else", o), self.T("{", o)], indent)
                else:
                    self.emit([self.T("}", o)], indent)
                    self.open_brace(o, [self.T("else", o), self.T("if", o), self.T("(", o)] + self.cond(o) + [self.T(")", o, glue=True)], indent)
                self.block_body(f, indent + self.unit, 1)
            self.close_brace(o, indent)
        elif kind == "for":
            v = self.var()
            init = ([self.T("int", o)] if self.typed else [self.T("let", o)]) + [self.T(v, o), self.T("=", o), self.T("0", o)]
            self.open_brace(o, [self.T("for", o, kind="kw"), self.T("(", o)] + init + [self.T(";", o, glue=True), self.T(v, o), self.T("<", o),
                                self.T("10", o), self.T(";", o, glue=True), self.T(v, o), self.T("++", o, glue=True), self.T(")", o, glue=True)], indent)
            self.block_body(f, indent + self.unit, n)
            self.close_brace(o, indent)
        elif kind == "while":
            self.open_brace(o, [self.T("while", o, kind="kw"), self.T("(", o)] + self.cond(o) + [self.T(")", o, glue=True)], indent)
            self.block_body(f, indent + self.unit, n)
            self.close_brace(o, indent)
        elif kind == "do":
            self.open_brace(o, [self.T("do", o, kind="kw")], indent)
            self.block_body(f, indent + self.unit, n)
            self.emit([self.T("}", o), self.T("while", o), self.T("(", o)] + self.cond(o) + [self.T(")", o, glue=True), self.T(";", o, glue=True)], indent)
        elif kind == "switch":
            self.open_brace(o, [self.T("switch", o, kind="kw"), self.T("(", o), self.T(self.var(), o, glue=True), self.T(")", o, glue=True)], indent)
            for c in range(r.randint(1, 2)):
                self.emit([self.T("case", o), self.T(str(c), o), self.T(":", o, glue=True)], indent + self.unit)
                self.simple_statement(o, indent + 2 * self.unit)
                self.emit([self.T("break", o), self.T(";", o, glue=True)], indent + 2 * self.unit)
            self.emit([self.T("default", o), self.T(":", o, glue=True)], indent + self.unit)
            self.emit([self.T("break", o), self.T(";", o, glue=True)], indent + 2 * self.unit)
            self.close_brace(o, indent)
        else:
            if self.lang == "C":
                return self.control(f, indent, budget) if r.random() < 0.9 else 0
            self.open_brace(o, [self.T("try", o, kind="kw")], indent)
            self.block_body(f, indent + self.unit, n)
            ex = {"Java": ["Exception", "e"], "C#": ["Exception", "e"], "C++": ["const", "Err", "&", "e"]}.get(self.lang, ["e"])
            self.emit([self.T("}", o), self.T("catch", o), self.T("(", o)] + [self.T(w, o) for w in ex] + [self.T(")", o, glue=True), self.T("{", o)], indent)
            self.simple_statement(o, indent + self.unit)
            if self.lang != "C++" and r.random() < 0.4:
                self.emit([self.T("}", o), self.T("finally", o), self.T("{", o)], indent)
                self.simple_statement(o, indent + self.unit)
            self.close_brace(o, indent)
        return n + 2

    def initialiser(self, o, indent):
        r = self.rng
        lang = self.lang
        if self.js:
            if r.random() < 0.5:
                self.emit(self.words("const arr = [ 1 , 2 , 3 ] ;", o), indent)
                return 1
            self.emit(self.words("const obj = {", o), indent)
            self.emit(self.words("x : 1 ,", o), indent + self.unit)
            self.emit(self.words("y : compute ( 2 ) ,", o), indent + self.unit)
            self.emit(self.words("} ;", o), indent)
            return 4
        if lang in ("Java", "C#") and r.random() < 0.4:
            # object creation with an initialiser block / anonymous class without methods
            if lang == "C#":
                self.emit(self.words("var bx = new Box ( ) { X = 1 , Y = 2 } ;", o), indent)
                return 1
            self.emit(self.words("Object ob = new Object ( ) {", o), indent)
            self.emit(self.words("int field = 1 ;", o), indent + self.unit)
            self.emit(self.words("} ;", o), indent)
            return 3
        arr = {"C": "int arr [ ] = { 1 , 2 , 3 } ;", "C++": "int arr [ ] = { 1 , 2 , 3 } ;",
               "Java": "int [ ] arr = { 1 , 2 , 3 } ;", "C#": "int [ ] arr = { 1 , 2 , 3 } ;"}[lang]
        if r.random() < 0.5:
            self.emit(self.words(arr, o), indent)
            return 1
        first = arr.split("{")[0] + "{"
        self.emit(self.words(first, o), indent)
        self.emit(self.words("1 , 2 ,", o), indent + self.unit)
        self.emit(self.words("3", o), indent + self.unit)
        self.emit(self.words("} ;", o), indent)
        return 4

    def anonymous(self, f, indent, budget):
        """anonymous functions / lambdas: never reported, their lines count for the enclosing named function"""
        r = self.rng
        o = f.fid if f is not None else None
        n = r.randint(1, 3)
        lang = self.lang
        if self.js:
            k = r.random()
            if k < 0.3:
                self.emit(self.words("items . map ( v => v + 1 ) ;", o), indent)
                return 1
            if k < 0.6:
                self.emit(self.words("items . forEach ( function ( v ) {", o), indent)
            elif k < 0.85:
                self.emit(self.words("items . forEach ( ( v , i ) => {", o), indent)
            else:
                self.emit(self.words("( function ( ) {", o), indent)
                self.block_body(f, indent + self.unit, n) if f is not None else [self.simple_statement(o, indent + self.unit) for _ in range(n)]
                self.emit(self.words("} ) ( ) ;", o), indent)
                return n + 2
            if f is not None:
                self.block_body(f, indent + self.unit, n)
            else:
                for _ in range(n):
                    self.simple_statement(o, indent + self.unit)
            self.emit(self.words("} ) ;", o), indent)
            return n + 2
        if lang == "Java":
            if r.random() < 0.4:
                self.emit(self.words("items . forEach ( v -> use ( v ) ) ;", o), indent)
                return 1
            self.emit(self.words("Runnable task = ( ) -> {", o) if r.random() < 0.5 else self.words("items . forEach ( ( v ) -> {", o), indent)
            closing = "} ;" if self.lines[-1][0].text == "Runnable" else "} ) ;"
        elif lang == "C#":
            if r.random() < 0.4:
                self.emit(self.words("var sq = items . Select ( v => v * 2 ) ;", o), indent)
                return 1
            k = r.random()
            if k < 0.5:
                self.emit(self.words("Action act = ( ) => {", o), indent)
                closing = "} ;"
            elif k < 0.8:
                self.emit(self.words("items . ForEach ( ( v ) => {", o), indent)
                closing = "} ) ;"
            else:
                self.emit(self.words("Action act = delegate ( ) {", o), indent)
                closing = "} ;"
        else:  # C++
            self.emit(self.words("auto lam = [ & ] ( int v ) {", o), indent)
            closing = "} ;"
        if f is not None:
            self.block_body(f, indent + self.unit, n)
        else:
            for _ in range(n):
                self.simple_statement(o, indent + self.unit)
        self.emit(self.words(closing, o), indent)
        return n + 2

    def brace_class(self, indent, depth=0):
        r = self.rng
        lang = self.lang
        self.use("classes")
        cname = self.ident("Klass")
        head = []
        if lang in ("Java", "C#") and r.random() < 0.6:
            head.append(self.T("public", None))
        head += [self.T("class" if lang != "C++" or r.random() < 0.6 else "struct", None), self.T(cname, None)]
        if lang in ("Java",) and r.random() < 0.2:
            head += [self.T("extends", None), self.T("Base", None)]
        self.open_brace(None, head, indent)
        if lang == "C++" and r.random() < 0.6:
            self.emit([self.T("public", None), self.T(":", None, glue=True)], indent)
        for _ in range(r.randint(1, 4)):
            k = r.random()
            if k < 0.2:
                if self.js:
                    self.emit([self.T(self.var(), None), self.T("=", None), self.T("1", None), self.T(";", None, glue=True)], indent + self.unit)
                else:
                    self.emit([self.T("int", None), self.T(self.var(), None), self.T(";", None, glue=True)], indent + self.unit)
            elif k < 0.28 and lang == "Java" and "initialisers" in self.F:
                self.use("initialisers")
                self.open_brace(None, [self.T("static", None)] if r.random() < 0.6 else [], indent + self.unit)
                self.simple_statement(None, indent + 2 * self.unit)
                self.close_brace(None, indent + self.unit)
            elif k < 0.36 and depth < 1 and lang != "JavaScript" and lang != "TypeScript":
                self.brace_class(indent + self.unit, depth + 1)
            else:
                self.brace_function(None, indent + self.unit, 0, in_class=True)
                self.count_fn += 1
        self.close_brace(None, indent, [self.T(";", None, glue=True)] if lang == "C++" else [])

    def brace_module(self):
        r = self.rng
        lang = self.lang
        self.count_fn = 0
        if lang == "C" or lang == "C++":
            self.emit([self.T("#include <stdio.h>", None, code=False)], 0)
        if lang == "Java" and r.random() < 0.5:
            self.emit(self.words("package demo . app ;", None), 0)
        if lang == "C#" and r.random() < 0.5:
            self.emit(self.words("using System ;", None), 0)
        wrap_ns = lang == "C#" and r.random() < 0.5
        base = 0
        if wrap_ns:
            self.open_brace(None, self.words("namespace Demo", None), 0)
            base = self.unit
        elif lang == "C++" and r.random() < 0.3:
            self.open_brace(None, self.words("namespace demo", None), 0)
            base = self.unit
            wrap_ns = True
        guard = 0
        while self.count_fn < self.target_functions and guard < 60:
            guard += 1
            k = r.random()
            must_class = lang in ("Java", "C#")
            if must_class or (lang != "C" and "classes" in self.F and k < 0.3):
                self.brace_class(base)
            elif k < 0.45 and "global_code" in self.F and not must_class:
                self.use("global_code")
                g = r.random()
                if self.js:
                    self.statement(None, base, budget=6)
                elif g < 0.4:
                    self.emit([self.T("int", None), self.T(self.var(), None), self.T("=", None), self.T(str(r.randint(0, 9)), None), self.T(";", None, glue=True)], base)
                elif g < 0.6 and "initialisers" in self.F:
                    self.initialiser(None, base)
                elif g < 0.8:
                    # prototype / declaration without body
                    self.emit([self.T("int", None), self.T(self.ident("proto"), None), self.T("(", None, glue=True), self.T("int", None, glue=True),
                               self.T("a", None), self.T(")", None, glue=True), self.T(";", None, glue=True)], base)
                else:
                    self.emit(self.words("struct Pair { int x ; int y ; } ;", None), base)
            else:
                self.brace_function(None, base, 0)
                self.count_fn += 1
        if wrap_ns:
            self.close_brace(None, 0)

    # ================================================================= Python
    def py_params(self, f):
        r = self.rng
        o = f.fid
        groups = []
        for i in range(r.randint(0, 3)):
            v = "p" + str(i) + r.choice("abc")
            if "rich_params" in self.F and r.random() < 0.25:
                self.use("rich_params")
                shapes = [s for s in self.RICH_PARAMS["Python"] if not s.startswith("*")]
                groups.append(self.words(r.choice(shapes).replace("{v}", v), o))
                continue
            t = [self.T(v, o)]
            if r.random() < 0.3:
                t += [self.T(":", o, glue=True), self.T(r.choice(["int", "str", "float"]), o)]
            if r.random() < 0.25:
                t += [self.T("=", o), self.T(str(r.randint(0, 9)), o)]
            groups.append(t)
        if self.on("call_params", 0.2):
            groups.append(self.words("dv = limit ( 1 )", o))
        if self.on("paren_strings", 0.1):
            groups.append(self.words("ps =", o) + [self.T(r.choice(['"("', '")"', "'('"]), o)])
        if self.on("brace_params", 0.1):
            groups.append(self.words("opt = { 'x' : 1 }", o))
        if groups and r.random() < 0.15:
            groups.append([self.T("*", o), self.T("args", o, glue=True)])
        return groups

    def py_function(self, owner, indent, depth, in_class=False):
        r = self.rng
        f = Func(len(self.funcs), self.ident("fn" if r.random() < 0.5 else None), owner, depth)
        self.funcs.append(f)
        o = f.fid
        if self.on("decorators", 0.12):
            self.emit([self.T("@" + r.choice(["cache", "staticmethod", "wraps"]), owner)], indent)
        if self.on("annotations", 0.1):
            self.emit(self.words(r.choice(["@app.route ( \"/items\" )", "@retry ( times = 3 )", "@pytest.mark.parametrize ( \"a\" , [ 1 , ( 2 ) ] )"]), owner), indent)
        head = []
        if self.on("async", 0.15):
            head.append(self.T("async", o, kind="kw"))
        head.append(self.T("def", o, kind="kw"))
        name = self.T(f.name, o, kind="name")
        f.name_tok = name
        head.append(name)
        f.first = head[0]
        groups = self.py_params(f)
        if in_class:
            groups.insert(0, [self.T("self", o)])
        lp = self.T("(", o, kind="punct", glue=True)
        rp = self.T(")", o, kind="punct", glue=True)
        tail = []
        if self.on("return_types", 0.3):
            tail = [self.T("->", o)] + self.words(r.choice(["int", "str", "None", "list [ int ]", "dict [ str , int ]", "\"Klass\"", "tuple [ int , ... ]"]), o)
        tail.append(self.T(":", o, glue=True))
        if groups and self.on("multiline_header", 0.2):
            self.emit(head + [lp], indent)
            for i, g in enumerate(groups):
                self.emit(g + ([self.T(",", o, glue=True)] if i < len(groups) - 1 or r.random() < 0.3 else []), indent + 2 * self.unit)
            rp.glue = False
            self.emit([rp] + tail, indent)
        else:
            flat = []
            for i, g in enumerate(groups):
                if i:
                    flat.append(self.T(",", o, glue=True))
                else:
                    g[0].glue = True
                flat += g
            self.emit(head + [lp] + flat + [rp] + tail, indent)
        self.py_body(f, indent + self.unit)
        return f

    def py_last_code_tok(self):
        for ln in reversed(self.lines):
            for t in reversed(ln):
                if t.code:
                    return t
        return None

    def py_body(self, f, indent):
        r = self.rng
        o = f.fid
        n_stmt = max(1, self.target_len())
        if self.on("docstrings", 0.15):
            k = r.randint(0, 4)
            # continuation lines may be truly empty (summary, blank line, description) or whitespace-only
            pieces = ["\n" + " " * indent + r.choice(["more text", "    indented text", "# not a comment", "}"]) if r.random() < 0.6 else
                      "\n" + r.choice(["", "", " " * indent]) for _ in range(k)]
            text = '"""' + r.choice(["Summary.", "Does { things } (maybe).", "def fake(): pass"]) + "".join(pieces) + \
                (('\n' + " " * indent) if k else "") + '"""'
            self.emit([self.T(text, o, kind="doc")], indent)
            if r.random() < 0.25:
                # a function whose whole body is its docstring: the multi-line string is the function's last token
                self.use("docstring_only_body")
                f.last = self.py_last_code_tok()
                return
        can_nest = "nested" in self.F and f.depth + 1 < self.max_depth
        nest_positions = set()
        if can_nest and r.random() < (0.45 if f.depth == 0 else 0.3):
            for pos in ("first", "middle", "last"):
                if "nested_" + pos in self.F and r.random() < 0.4:
                    nest_positions.add(pos)
        if "first" in nest_positions:
            self.use("nested_first")
            self.use("nested")
            self.py_function(o, indent, f.depth + 1)
        mid_at = r.randint(1, max(1, n_stmt)) if "middle" in nest_positions else None
        i = 0
        emitted_any = False
        while i < n_stmt:
            if mid_at is not None and i >= mid_at and emitted_any:
                self.use("nested_middle")
                self.use("nested")
                self.py_function(o, indent, f.depth + 1)
                mid_at = None
            i += self.py_statement(f, indent, budget=n_stmt - i)
            emitted_any = True
        if mid_at is not None:
            self.use("nested_middle")
            self.use("nested")
            self.py_function(o, indent, f.depth + 1)
            self.simple_statement(o, indent)
        if "last" in nest_positions:
            self.use("nested_last")
            self.use("nested")
            self.py_function(o, indent, f.depth + 1)
        f.last = self.py_last_code_tok()

    def py_statement(self, f, indent, budget):
        r = self.rng
        o = f.fid if f is not None else None
        k = r.random()
        if k < 0.62 or budget < 3:
            self.simple_statement(o, indent)
            return 1
        if k < 0.85 and "control" in self.F:
            self.use("control")
            n = r.randint(1, max(1, min(4, budget - 2)))
            kind = r.choice(["if", "ifelse", "for", "while", "try", "with"])
            if kind in ("if", "ifelse"):
                self.emit([self.T("if", o, kind="kw")] + self.cond_py(o) + [self.T(":", o, glue=True)], indent)
                self.py_block(f, indent + self.unit, n)
                if kind == "ifelse":
                    if r.random() < 0.5:
                        self.emit([self.T("elif", o)] + self.cond_py(o) + [self.T(":", o, glue=True)], indent)
                        self.py_block(f, indent + self.unit, 1)
                    self.emit([self.T("else", o), self.T(":", o, glue=True)], indent)
                    self.py_block(f, indent + self.unit, 1)
            elif kind == "for":
                self.emit([self.T("for", o, kind="kw"), self.T(self.var(), o), self.T("in", o)] + self.call(o) + [self.T(":", o, glue=True)], indent)
                self.py_block(f, indent + self.unit, n)
            elif kind == "while":
                self.emit([self.T("while", o, kind="kw")] + self.cond_py(o) + [self.T(":", o, glue=True)], indent)
                self.py_block(f, indent + self.unit, n)
            elif kind == "with":
                self.emit([self.T("with", o, kind="kw")] + self.call(o) + [self.T("as", o), self.T(self.var(), o), self.T(":", o, glue=True)], indent)
                self.py_block(f, indent + self.unit, n)
            else:
                self.emit([self.T("try", o, kind="kw"), self.T(":", o, glue=True)], indent)
                self.py_block(f, indent + self.unit, n)
                self.emit([self.T("except", o), self.T("ValueError", o), self.T(":", o, glue=True)], indent)
                self.py_block(f, indent + self.unit, 1)
            return n + 2
        if k < 0.92 and "anon" in self.F:
            self.use("anon")
            self.emit([self.T(self.var(), o), self.T("=", o), self.T("lambda", o), self.T("v", o), self.T(":", o, glue=True), self.T("v", o), self.T("+", o), self.T("1", o)], indent)
            return 1
        if "initialisers" in self.F:
            self.use("initialisers")
            if r.random() < 0.5:
                self.emit(self.words("table = { 'a' : 1 , 'b' : ( 2 , 3 ) }", o), indent)
                return 1
            self.emit(self.words("rows = [", o), indent)
            self.emit(self.words("1 , 2 ,", o), indent + self.unit)
            self.emit(self.words("compute ( 3 ) ,", o), indent + self.unit)
            self.emit(self.words("]", o), indent)
            return 4
        self.simple_statement(o, indent)
        return 1

    def cond_py(self, o):
        r = self.rng
        if r.random() < 0.5:
            return [self.T(self.var(), o), self.T(r.choice(["<", ">", "=="]), o), self.T(str(r.randint(0, 9)), o)]
        return self.call(o, 2)

    def py_block(self, f, indent, n):
        i = 0
        while i < n:
            i += self.py_statement(f, indent, budget=max(1, n - i))

    def py_class(self, indent, depth=0):
        r = self.rng
        self.use("classes")
        cname = self.ident("Klass")
        head = [self.T("class", None), self.T(cname, None)]
        if r.random() < 0.3:
            head += [self.T("(", None, glue=True), self.T("Base", None, glue=True), self.T(")", None, glue=True)]
        self.emit(head + [self.T(":", None, glue=True)], indent)
        if r.random() < 0.3:
            self.emit([self.T(self.var(), None), self.T("=", None), self.T("1", None)], indent + self.unit)
        for _ in range(r.randint(1, 3)):
            self.py_function(None, indent + self.unit, 0, in_class=True)
            self.count_fn += 1
        if depth < 1 and r.random() < 0.15:
            self.py_class(indent + self.unit, depth + 1)

    def py_module(self):
        r = self.rng
        self.count_fn = 0
        if r.random() < 0.5:
            self.emit(self.words("import os", None), 0)
        guard = 0
        while self.count_fn < self.target_functions and guard < 60:
            guard += 1
            k = r.random()
            if k < 0.25 and "classes" in self.F:
                self.py_class(0)
            elif k < 0.45 and "global_code" in self.F:
                self.use("global_code")
                self.py_statement(None, 0, budget=6)
            else:
                self.py_function(None, 0, 0)
                self.count_fn += 1
        if "global_code" in self.F and r.random() < 0.4:
            self.use("global_code")
            self.emit(self.words("if __name__ == '__main__' :", None), 0)
            self.emit(self.call(None), self.unit)

    # ================================================================= rendering and truth
    def finish(self):
        out = []
        line_no = 1
        all_tokens = []
        for toks, indent in zip(self.lines, self.indents):
            col = 1
            s = ""
            if toks:
                s = " " * indent
                col = indent + 1
            cur_line = line_no
            for i, t in enumerate(toks):
                if i > 0 and not t.glue:
                    s += " "
                    col += 1
                t.line, t.col = cur_line, col
                s += t.text
                nl = t.text.count("\n")
                if nl:
                    cur_line += nl
                    col = len(t.text) - t.text.rfind("\n")
                else:
                    col += len(t.text)
                all_tokens.append(t)
            out.append(s)
            line_no = cur_line + 1
        text = "\n".join(out) + "\n"
        truth = []
        own_lines = {}
        for t in all_tokens:
            if t.code and t.owner is not None:
                own_lines.setdefault(t.owner, set()).add(t.line)
        for f in self.funcs:
            last = f.last
            nl = last.text.count("\n")
            if nl:
                end = (last.line + nl, len(last.text) - last.text.rfind("\n"))
            else:
                end = (last.line, last.col + len(last.text))
            truth.append(Truth(f.name, (f.first.line, f.first.col), end, len(own_lines.get(f.fid, ())), f.depth, f.parent, f.qual_prefix))
        return Program(self.lang, text, truth, tuple(sorted(self.F)), dict(self.used), all_tokens, self.seed)


def generate(language, seed, features=None, **kw) -> Program:
    return Gen(language, seed, features, **kw).generate()


# --------------------------------------------------------------------------------------------------
# fixed-length functions (C02): a file whose single function has exactly L lines
# --------------------------------------------------------------------------------------------------
def exact_length_function(language, length, name="unit", indent=0, body_var="v"):
    """Source text of one canonical function of exactly `length` lines (header and closing brace included for the
    brace languages; `def` line included for Python, so Python needs length >= 2)."""
    pad = " " * indent
    if language == "Python":
        if length < 2:
            raise ValueError("a canonical Python function has at least two lines")
        lines = [f"{pad}def {name}(a, b):"] + [f"{pad}    {body_var}{i} = a + {i}" for i in range(length - 2)] + [f"{pad}    return a"]
        return "\n".join(lines) + "\n"
    head = {"C": f"int {name}(int a, int b)", "C++": f"int {name}(int a, int b)", "C#": f"public int {name}(int a, int b)",
            "Java": f"public int {name}(int a, int b)", "JavaScript": f"function {name}(a, b)",
            "TypeScript": f"function {name}(a: number, b: number): number"}[language]
    decl = "let" if language in ("JavaScript", "TypeScript") else "int"
    if length == 1:
        return f"{pad}{head} {{ return a; }}\n"
    if length == 2:
        return f"{pad}{head} {{\n{pad}    return a; }}\n"
    lines = [f"{pad}{head} {{"] + [f"{pad}    {decl} {body_var}{i} = a + {i};" for i in range(length - 3)] + [f"{pad}    return a;", f"{pad}}}"]
    return "\n".join(lines) + "\n"


def file_with_functions(language, lengths, prefix="unit"):
    """A source file with one canonical function per requested length (wrapped in a class for Java / C#)."""
    wrap = language in ("Java", "C#")
    parts = []
    for i, n in enumerate(lengths):
        parts.append(exact_length_function(language, n, f"{prefix}{i}", indent=4 if wrap else 0))
    body = "\n".join(parts)
    if wrap:
        return "public class Holder {\n" + body + "}\n"
    return body
