"""G2 (hostile inputs) and G3 (vendored real-world corpus)."""
from __future__ import annotations

import os

from vf import VERIF_DIR
from vf.gen.canon import LANGS

CORPUS_DIR = {"C": "c", "C++": "cpp", "C#": "csharp", "Java": "java", "JavaScript": "javascript",
              "TypeScript": "typescript", "Python": "python"}


def decode(data: bytes) -> str:
    """as Scanner._read_file does: default (UTF-8) text mode with universal newlines, Latin-1 fallback"""
    try:
        s = data.decode("utf-8")
    except UnicodeDecodeError:
        s = data.decode("latin-1")
    return s.replace("\r\n", "\n").replace("\r", "\n")


def corpus(language):
    d = os.path.join(VERIF_DIR, "corpus", CORPUS_DIR[language])
    out = []
    for name in sorted(os.listdir(d)):
        with open(os.path.join(d, name), "rb") as f:
            out.append((name, decode(f.read())))
    return out


def corpus_bytes(language):
    d = os.path.join(VERIF_DIR, "corpus", CORPUS_DIR[language])
    return [(name, open(os.path.join(d, name), "rb").read()) for name in sorted(os.listdir(d))]


# ------------------------------------------------------------------------------------------------
def cuts(text, rng, max_cases):
    """prefixes and suffixes: every offset when the text is small, else all line boundaries + random offsets"""
    n = len(text)
    if 2 * n <= max_cases:
        offs = list(range(n + 1))
    else:
        lines = [i + 1 for i, c in enumerate(text) if c == "\n"]
        k = max_cases // 2
        offs = sorted(set(rng.sample(lines, min(len(lines), k // 2)) + [rng.randrange(n + 1) for _ in range(k - k // 2)]))
    for o in offs:
        yield ("prefix", o, text[:o])
    for o in offs:
        yield ("suffix", o, text[o:])


def line_mutations(text, rng, n):
    lines = text.split("\n")
    for _ in range(n):
        ls = list(lines)
        ops = []
        for _ in range(rng.choice([1, 1, 2, 3])):
            if len(ls) < 2:
                break
            i = rng.randrange(len(ls))
            op = rng.choice(["del", "dup", "swap", "indent", "dedent", "join"])
            ops.append((op, i))
            if op == "del":
                del ls[i]
            elif op == "dup":
                ls.insert(i, ls[i])
            elif op == "swap" and i + 1 < len(ls):
                ls[i], ls[i + 1] = ls[i + 1], ls[i]
            elif op == "indent":
                ls[i] = "    " + ls[i]
            elif op == "dedent":
                ls[i] = ls[i].lstrip()
            elif op == "join" and i + 1 < len(ls):
                ls[i] = ls[i] + " " + ls.pop(i + 1).lstrip()
        yield ("line_mutation", ops, "\n".join(ls))


EXOTIC_SEPARATORS = ["\x0c", "\x0b", "\x1c", "\x1d", "\x1e", "\x85", "\u2028", "\u2029", "\r", "\x0c\n", "\n\x0c", "\r\r"]


def separator_mutations(text, rng, n):
    """well-formed programs sprinkled with characters that some line-splitting routines treat as line breaks although the
    lexer and codelimit's line/column arithmetic do not (form feed page breaks, VT, FS/GS/RS, NEL, LS/PS, lone CR)"""
    lines = text.split("\n")
    for _ in range(n):
        ls = list(lines)
        ops = []
        for _ in range(rng.choice([1, 1, 2, 4])):
            i = rng.randrange(len(ls))
            sep = rng.choice(EXOTIC_SEPARATORS)
            where = rng.choice(["own_line", "line_start", "line_end", "after_indent"])
            ops.append((where, i, sep))
            if where == "own_line":
                ls.insert(i, sep)
            elif where == "line_start":
                ls[i] = sep + ls[i]
            elif where == "line_end":
                ls[i] = ls[i] + sep
            else:
                k = len(ls[i]) - len(ls[i].lstrip(" "))
                ls[i] = ls[i][:k] + sep + ls[i][k:]
        yield ("separator_mutation", ops, "\n".join(ls))


def token_mutations(text, raw_tokens, rng, n):
    """delete / duplicate / swap lexer tokens (raw_tokens: [(offset, type, value)])"""
    toks = [v for _, _, v in raw_tokens]
    idx = [i for i, v in enumerate(toks) if v.strip()]
    if len(idx) < 3:
        return
    for _ in range(n):
        ts = list(toks)
        ops = []
        for _ in range(rng.choice([1, 1, 2, 4])):
            i = rng.choice(idx)
            if i >= len(ts):
                continue
            op = rng.choice(["del", "dup", "swap"])
            ops.append((op, i))
            if op == "del":
                ts[i] = ""
            elif op == "dup":
                ts[i] = ts[i] + " " + ts[i]
            else:
                j = rng.choice(idx)
                if j < len(ts):
                    ts[i], ts[j] = ts[j], ts[i]
        yield ("token_mutation", ops, "".join(ts))


ALPHABET_COMMON = ["(", ")", "{", "}", "[", "]", ";", ",", ".", ":", "=", "=>", "->", "+", "<", ">", "*", "&", "!", "?",
                   "x", "y1", "foo", "Bar", "é", "名前", "0", "42", "3.14", "\n", "\n", "\n", " ", "  ", "\t", "\f",
                   "\r\n", "\\\n", "\"", "'", "\"s\"", "'c'", "\"(\"", "\")\"", "\"{\"", "/", "//", "/*", "*/", "#",
                   "// nocl", "/* nocl */", "@"]
ALPHABET = {
    "C": ["int", "void", "struct", "static", "if", "else", "for", "while", "return", "switch", "case", "#define", "#include <a.h>", "typedef", "do"],
    "C++": ["int", "void", "class", "struct", "namespace", "template", "public:", "::", "if", "for", "return", "new", "operator", "const", "noexcept", "auto", "[&]", "~"],
    "C#": ["int", "void", "class", "namespace", "public", "static", "new", "if", "else", "foreach", "using", "async", "await", "delegate", "var", "@\"v\"", "$\"i{x}\"", "get", "set"],
    "Java": ["int", "void", "class", "interface", "public", "static", "new", "record", "throws", "if", "else", "for", "try", "catch", "return", "@Override", "enum", "->"],
    "JavaScript": ["function", "const", "let", "var", "async", "await", "class", "new", "if", "else", "for", "return", "=>", "`t`", "`a${b}c`", "${", "yield", "static", "get", "/re/g"],
    "TypeScript": ["function", "const", "let", "async", "class", "interface", "type", "new", "if", "return", "=>", ": number", "<T>", "as", "`a${b}`", "public", "readonly", "enum", "declare"],
    "Python": ["def", "async", "class", "lambda", "if", "else", "elif", "for", "while", "return", "pass", "import", "with", "try", "except", "\"\"\"", "'''", "f\"{x}\"", "    ", "        ", "@dec", "->", ":", ":\n    ", "# c", "#nocl"],
}


def soup(language, rng, max_len=40):
    alpha = ALPHABET_COMMON + ALPHABET[language] * 2
    n = rng.randint(1, max_len)
    sep = rng.choice([" ", " ", "", "\n"])
    return sep.join(rng.choice(alpha) for _ in range(n))


def arrow_soup(rng, max_len=30):
    alpha = ["(", ")", "(", ")", "=>", "=>", "=", "const", "async", "f", "g", "{", "}", ",", "a", "=", "function", ":", "x"]
    return " ".join(rng.choice(alpha) for _ in range(rng.randint(1, max_len)))


def targeted(language):
    """specific hostile shapes (unterminated header at EOF, nested arrows, unbalanced brackets, deep nesting ...)"""
    out = []
    deep = 1500
    if language == "Python":
        out += ["def f():\n    \"\"\"Summary.\n\n    Description after an empty line.\n\n\n    More.\n    \"\"\"\n",
                "class A:\n    def m(self):\n        '''doc\n\n        '''\n\n    def n(self):\n        '''\n\n\n        x'''\n",
                "def f(", "def f(a, b", "def f()", "def f():", "def f():\n", "async def", "def", "def f(a=\"(\"):\n    pass",
                "def f(:\n    pass\n", "def f(a):\n\tx\n        y\n", "class A:\n  def f(self):\n   pass\n def g(): pass\n",
                "def f():\n    '''\n    doc", "def f(x=(1,(2,(3,\n", "\\\n", "def f(a):\\\n    pass\n", "x = '''\ndef f():\n    pass\n'''\n",
                "def f():\n" + "".join("    " * (i + 1) + f"def g{i}():\n" for i in range(120)) + "    " * 121 + "pass\n",
                "def f(" + "(" * deep, "def f" + "()" * deep + ":\n    pass\n",
                "def f():\n" + "".join(" " * (i % 50 + 1) + f"x{i}\n" for i in range(300)),
                "\n".join(f"def f{i}(): pass" for i in range(200)), "def f(a):\n    pass\n" * 300]
    else:
        out += ["f(", "f(a, b", "f()", "f() {", "f() {}", "int f(int a) {", "int f(int a) { return 1;", "}", "{", "{}{}{}", ")(", "}{",
                "f(a) { g(b) { h(c) {", "f((((", "f())))) {", "(" * deep, ")" * deep, "{" * deep, "}" * deep,
                "f(" + "(" * deep + ")" * deep + ") {}", "".join("f%d() {\n" % i for i in range(deep)) + "}" * deep,
                "f" + "()" * deep + " {}", "{" * deep + "}" * deep, "f() {" + "{" * deep,
                "int a[] = {" + "{1}," * 500 + "};", "f(a) { } " * 400, "/* unterminated", "// nocl\nf() {}", "\"unterminated\nf() {}",
                "'x", "f() /* c */ {}", "f()\n\n\n{\n}\n"]
        if language in ("JavaScript", "TypeScript"):
            out += ["const f = (cb = () => 0) => {\n}\n", "const f = (a = (b = (c = () => {}) => {}) => {}) => {}",
                    "f = ( => {", "const f = async ( => ) => {", "const f = () =>", "const f = () => {", "const = () => {}",
                    "x = (a, b) => (c) => (d) => {", "const f = (" * 200, "const f = ((((=>)))) => {}", "function (", "function f",
                    "function f(a = function g(b = function h() {}) {}) {}", "`${", "`a${b}c` f() {}", "f = (=>) => {", "a = ( ( => ) => {",
                    "function f(a): { x: number } {\n}\n", "f(a): number;", "class A { f(a): void; f(a) {} }"]
        if language == "Java":
            # one Keyword.Namespace token spanning lines
            out += ["import\nstatic a.b.C;\nclass A {\n  void f() {\n    g();\n  }\n}\n", "import\n  module x.y;\nclass B { void g() { } }\n",
                    "import\n\n\nstatic q.R;\nclass C {\n  int h() {\n    return 1;\n  }\n}\n"]
            out += ["void f() throws {", "void f() throws A, B", "void f() throws A ; {", "new A() {", "record R(int a) {", "new", "record"]
        if language == "C#":
            # one Name.Attribute token spanning lines (Pygments: '[' at line start up to the first ']')
            out += ["[Route(\n    \"x\")]\npublic void F() {\n}\n", "[\nObsolete\n]\nvoid G() { }\n",
                    "class A {\n  [Test,\n   Category(\"x\")]\n  void H() {\n    k();\n  }\n\n  [\n  Fact]\n  int I() {\n    return 2;\n  }\n}\n"]
            out += ["new A() {", "else if (a) {", "else if (", "void f() =>", "int P { get; set; }", "@\"", "$\"{"]
    return out


def declared_encoding_cases(language):
    """files that DECLARE an encoding (PEP 263 / Emacs / Vim style) and then contain bytes that are not valid in it, not valid
    UTF-8 either, or name a codec that does not exist: whatever a reader does with the declaration, it must not fail"""
    lead = "#" if language == "Python" else "//"
    body = b"def f(a):\n    return a\n" if language == "Python" else b"int f(int a) {\n  return a;\n}\n"
    sjis = "\u30c6\u30b9\u30c8".encode("shift_jis")
    out = []
    decls = [("shift_jis", sjis[:-1] + b"\x82"), ("euc_jp", "\u30c6".encode("euc_jp")[:1] + b"\n"), ("cp1252", b"\x81\x8d\x8f\x90\x9d"),
             ("ascii", b"caf\xe9"), ("utf-16", b"\xff\xfe\x00"), ("utf-32", b"\x00\x01"), ("utf-8", b"\xff\xfe junk"), ("no-such-codec", b"\xe9"),
             ("gb2312", b"\xa1"), ("big5", b"\xf9\xfe\xff"), ("utf_7", b"+\xff-"), ("hex", b"zz\xe9"), ("rot13", b"\xe9"), ("idna", b"\xe9.."),
             ("latin-1", b"\xe9\xff"), ("iso-2022-jp", b"\x1b$B\xff")]
    for i, (codec, junk) in enumerate(decls):
        for style in (f"{lead} -*- coding: {codec} -*-", f"{lead} vim: set fileencoding={codec} :", f"{lead} coding={codec}"):
            first = (b"#!/usr/bin/env x\n" if i % 2 else b"")
            out.append((f"declared_{codec}_{len(out)}", first + style.encode() + b"\n" + lead.encode() + b" " + junk + b"\n" + body))
    return out


def raw_byte_cases(language, base: bytes):
    """byte-level contents for file-based entry points"""
    return declared_encoding_cases(language)[:: 5] + [
        ("empty", b""), ("nul", b"\x00" * 10), ("latin1", "// caf\xe9\n".encode("latin-1") + base[:2000] + "\nint \xe9 = 1;\n".encode("latin-1")),
        ("invalid_utf8", b"\xff\xfe\xfd" + base[:500]), ("utf16_bom", "\ufefff() {}\n".encode("utf-16")),
        ("utf8_bom", b"\xef\xbb\xbf" + base[:1500]), ("lone_continuation", base[:300] + b"\x80\x80" + base[300:900]),
        ("crlf", base[:3000].replace(b"\n", b"\r\n")), ("cr_only", base[:1500].replace(b"\n", b"\r")),
        ("binary", bytes(range(256)) * 4), ("truncated_multibyte", "é".encode("utf-8")[:1] ),
        ("nul_inside", base[:400] + b"\x00" + base[400:800]),
    ]
