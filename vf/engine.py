"""Translation of reference pattern trees to the repository's Expression objects (real operators)."""
from __future__ import annotations

import vf  # noqa: F401  (sets sys.path)


def to_expr(t):
    """Returns a list usable as an Expression (sequence flattened: codelimit has no nested lists)."""
    from codelimit.common.gsm.operator.OneOrMore import OneOrMore
    from codelimit.common.gsm.operator.Optional import Optional
    from codelimit.common.gsm.operator.Union import Union
    from codelimit.common.gsm.operator.ZeroOrMore import ZeroOrMore

    k = t[0]
    if k == "atom":
        return [t[1]]
    if k == "seq":
        return to_expr(t[1]) + to_expr(t[2])
    if k == "alt":
        return [Union(to_expr(t[1]), to_expr(t[2]))]
    if k == "opt":
        return [Optional(to_expr(t[1]))]
    if k == "star":
        return [ZeroOrMore(to_expr(t[1]))]
    if k == "plus":
        return [OneOrMore(to_expr(t[1]))]
    raise ValueError(k)


def to_expr_shared(t, cache):
    """Like to_expr, but identical sub-patterns are represented by ONE operator object, within a pattern and (through `cache`)
    across patterns: `run = OneOrMore("a"); [run, "b", run]` is as legitimate a pattern as one built from fresh objects."""
    from codelimit.common.gsm.operator.OneOrMore import OneOrMore
    from codelimit.common.gsm.operator.Optional import Optional
    from codelimit.common.gsm.operator.Union import Union
    from codelimit.common.gsm.operator.ZeroOrMore import ZeroOrMore

    k = t[0]
    if k == "atom":
        return [t[1]]
    if k == "seq":
        return to_expr_shared(t[1], cache) + to_expr_shared(t[2], cache)
    if t in cache:
        return [cache[t]]
    if k == "alt":
        op = Union(to_expr_shared(t[1], cache), to_expr_shared(t[2], cache))
    elif k == "opt":
        op = Optional(to_expr_shared(t[1], cache))
    elif k == "star":
        op = ZeroOrMore(to_expr_shared(t[1], cache))
    elif k == "plus":
        op = OneOrMore(to_expr_shared(t[1], cache))
    else:
        raise ValueError(k)
    cache[t] = op
    return [op]


def show(t) -> str:
    k = t[0]
    if k == "atom":
        return str(t[1])
    if k == "seq":
        return f"{show(t[1])}{show(t[2])}"
    if k == "alt":
        return f"({show(t[1])}|{show(t[2])})"
    return f"({show(t[1])})" + {"opt": "?", "star": "*", "plus": "+"}[k]


def tree_from_json(j):
    return tuple(tree_from_json(x) if isinstance(x, list) else x for x in j)
