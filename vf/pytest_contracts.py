"""pytest plugin (self-validation, DESIGN section 7 item 4): run the REPOSITORY'S OWN test-suite with the runtime contracts installed.
    cd /repo && PYTHONPATH=/verif /venv/bin/python -m pytest -q -p no:cacheprovider -p vf.pytest_contracts
A contract that fires there is either too strict (a false alarm of the machinery) or a defect the suite does not assert."""
import pytest

from vf.common import Ctx


@pytest.fixture(scope="session", autouse=True)
def _vf_contracts():
    from vf.props import c02, c07, c16, c19

    ctx = Ctx("suite", {})
    cms = [c16.LexContract(ctx), c07.Hook(ctx), c19.Contract(ctx), c02.Contracts(ctx)]
    for c in cms:
        c.__enter__()
    c02._C["c"] = cms[3]
    c19._CUR["c"] = cms[2]
    yield ctx
    for c in reversed(cms):
        c.__exit__(None, None, None)
    print("\n[vf contracts during the repository's suite]", dict(sorted(ctx.counters.items())))
