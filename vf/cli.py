import os
import sys


def main(argv):
    if len(argv) < 2:
        print(__doc__ or "usage: ./check <ID> <quick|thorough> | ./check <ID> --replay <path>")
        return 2
    prop = argv[0].upper()
    from . import runner

    if argv[1] == "--replay":
        return runner.replay(prop, argv[2])
    tier = argv[1] if argv[1] in ("quick", "thorough") else os.environ.get("VERIF_TIER", "quick")
    seed = int(os.environ.get("VERIF_SEED", "0"))
    return runner.check(prop, tier, seed)


if __name__ == "__main__":
    sys.exit(main(sys.argv[1:]))
