"""Driving the real analysis pipeline exactly as codelimit's own callers do."""
from __future__ import annotations

import vf  # noqa: F401
from vf.gen.canon import EXT

_LEXERS = {}


def lexer_for(language):
    """The Pygments lexer codelimit itself would select for a file of this language (by file name)."""
    if language not in _LEXERS:
        from pygments.lexers import get_lexer_for_filename

        lx = get_lexer_for_filename("sample" + EXT[language])
        assert lx.__class__.name == language, (lx.__class__.name, language)
        _LEXERS[language] = lx
    return _LEXERS[language]


def analyze(language, text):
    """(all tokens incl. comments, measurements) through the real lex + scan_file, as Scanner._analyze_file does."""
    from codelimit.common.Scanner import scan_file
    from codelimit.common.lexer_utils import lex
    from codelimit.languages import Languages

    tokens = lex(lexer_for(language), text, False)
    return tokens, scan_file(tokens, Languages.by_name[language])


def measurements_as_lists(ms):
    return [[m.unit_name, [m.start.line, m.start.column], [m.end.line, m.end.column], m.value] for m in ms]


def raw_tokens(language, text):
    """Raw Pygments stream [(offset, type, value)], untouched by codelimit."""
    return list(lexer_for(language).get_tokens_unprocessed(text))
