"""Capture the expressions the real languages hand to the matcher (header pattern + follow-up pattern)."""
from __future__ import annotations

import sys

import vf  # noqa: F401


def get_headers_followups():
    """(language, expression, followed_by) triples as passed to scope_utils.get_headers by each real language's
    extract_headers, in a deterministic order."""
    from codelimit.common.scope import scope_utils
    from codelimit.languages import Languages

    out, cur = [], {}
    mods = [m for n, m in sorted(sys.modules.items())
            if n.startswith("codelimit.languages.") and getattr(m, "get_headers", None) is scope_utils.get_headers]
    orig = scope_utils.get_headers

    def gh(tokens, expression, followed_by=None):
        out.append((cur["lang"], expression, followed_by))
        return orig(tokens, expression, followed_by)

    for m in mods:
        m.get_headers = gh
    try:
        for name, lang in sorted(Languages.by_name.items()):
            cur["lang"] = name
            before = len(out)
            lang.extract_headers([])
            cur["n"] = len(out) - before
    finally:
        for m in mods:
            m.get_headers = orig
    return out


def leaf_predicates(x, out=None):
    """Leaf token predicates occurring anywhere in an expression (operators, lists, composite predicates)."""
    from codelimit.common.gsm.operator.Operator import Operator as GsmOperator
    from codelimit.common.gsm.predicate.Predicate import Predicate

    if out is None:
        out = []
    if isinstance(x, (list, tuple)):
        for i in x:
            leaf_predicates(i, out)
    elif isinstance(x, (GsmOperator, Predicate)):
        subs = [v for k, v in vars(x).items() if isinstance(v, (list, tuple, GsmOperator, Predicate))]
        if isinstance(x, Predicate) and not subs:
            out.append(x)
        for v in subs:
            leaf_predicates(v, out)
    return out


def all_predicates(x, out=None):
    from codelimit.common.gsm.operator.Operator import Operator as GsmOperator
    from codelimit.common.gsm.predicate.Predicate import Predicate

    if out is None:
        out = []
    if isinstance(x, (list, tuple)):
        for i in x:
            all_predicates(i, out)
    elif isinstance(x, (GsmOperator, Predicate)):
        if isinstance(x, Predicate):
            out.append(x)
        for k, v in vars(x).items():
            if isinstance(v, (list, tuple, GsmOperator, Predicate)):
                all_predicates(v, out)
    return out


def signature(x):
    from codelimit.common.gsm.operator.Operator import Operator as GsmOperator
    from codelimit.common.gsm.predicate.Predicate import Predicate

    if isinstance(x, (list, tuple)):
        return tuple(signature(i) for i in x)
    if isinstance(x, (GsmOperator, Predicate)):
        return (type(x).__name__,) + tuple((k, signature(v)) for k, v in sorted(vars(x).items())
                                           if k not in ("satisfied", "depth"))
    return repr(x)


def describe(x) -> str:
    """Readable rendering of an expression for evidence and witnesses."""
    from codelimit.common.gsm.operator.Operator import Operator as GsmOperator
    from codelimit.common.gsm.predicate.Predicate import Predicate

    if x is None:
        return "-"
    if isinstance(x, (list, tuple)):
        return "[" + " ".join(describe(i) for i in x) + "]"
    if isinstance(x, (GsmOperator, Predicate)):
        parts = [describe(v) if isinstance(v, (list, tuple, GsmOperator, Predicate)) else repr(v)
                 for k, v in sorted(vars(x).items()) if k not in ("satisfied", "depth")]
        return type(x).__name__ + "(" + ", ".join(parts) + ")"
    return repr(x)
