"""Runtime-monitoring framework for getcodelimit/codelimit (see /verif/DESIGN.md).

Importing this package puts the repository under test ($VERIF_REPO, default /repo) and the
git-ignored contract libraries (.deps) on sys.path, so that `import codelimit` always means the
current working tree of the repository and never an installed copy.
"""
import os
import sys

VERIF_DIR = os.path.dirname(os.path.dirname(os.path.abspath(__file__)))
REPO = os.path.abspath(os.environ.get("VERIF_REPO", "/repo"))

# repository first, so a scratch copy selected with VERIF_REPO wins over the editable install of /repo
if REPO in sys.path:
    sys.path.remove(REPO)
sys.path.insert(0, REPO)
_deps = os.path.join(VERIF_DIR, ".deps")
if os.path.isdir(_deps) and _deps not in sys.path:
    sys.path.append(_deps)


class MonitorViolation(Exception):
    """Raised by a contract / monitor that observed a refuting event."""

    def __init__(self, prop, detail):
        super().__init__(f"{prop}: {detail}")
        self.prop = prop
        self.detail = detail
