"""Shared monitor toolkit: patching, contracts, step budget, contexts."""
from __future__ import annotations

import hashlib
import json
import os
import random
import sys
import time
import traceback

from . import MonitorViolation, REPO, VERIF_DIR  # noqa: F401

# --------------------------------------------------------------------------------------
# contracts: icontract when available (installed by setup.sh into .deps), otherwise a shim
# --------------------------------------------------------------------------------------
try:  # pragma: no cover - depends on the sandbox
    import icontract as _icontract

    HAVE_ICONTRACT = True
except Exception:  # pragma: no cover
    _icontract = None
    HAVE_ICONTRACT = False


def ensure(func, condition, prop, describe=None):
    """Wrap `func` with a post-condition `condition(result=..., **named args)`.

    `condition` must be a *named* function whose parameters are a subset of func's parameter names
    plus `result`. A failure raises MonitorViolation(prop, ...). Uses icontract.ensure when the
    library is importable, else an equivalent in-tree wrapper.
    """
    import functools
    import inspect

    if HAVE_ICONTRACT:
        def _error(**kwargs):
            return MonitorViolation(prop, describe(**kwargs) if describe else condition.__name__)

        # icontract wants the error factory's parameters to be a subset of the condition's
        _error.__signature__ = inspect.signature(condition)  # type: ignore[attr-defined]
        return _icontract.ensure(condition, error=_error)(func)

    sig = inspect.signature(func)
    wanted = list(inspect.signature(condition).parameters)

    @functools.wraps(func)
    def wrapper(*args, **kwargs):
        result = func(*args, **kwargs)
        bound = sig.bind(*args, **kwargs)
        bound.apply_defaults()
        values = dict(bound.arguments)
        values["result"] = result
        call = {k: values[k] for k in wanted}
        if not condition(**call):
            raise MonitorViolation(prop, describe(**call) if describe else condition.__name__)
        return result

    return wrapper


def patch_everywhere(module, name, wrapper_factory):
    """Replace `module.name` by wrapper_factory(original) in its defining module and in every loaded
    module that bound the same object with `from ... import name`. Returns (original, n_bindings)."""
    original = getattr(module, name)
    wrapped = wrapper_factory(original)
    n = 0
    for mod in list(sys.modules.values()):
        if mod is None:
            continue
        d = getattr(mod, "__dict__", None)
        if not d:
            continue
        for k, v in list(d.items()):
            if v is original:
                try:
                    setattr(mod, k, wrapped)
                    n += 1
                except Exception:
                    pass
    return original, n


class Unpatch:
    """Context manager version of patch_everywhere."""

    def __init__(self, module, name, wrapper_factory):
        self.module, self.name, self.factory = module, name, wrapper_factory
        self.sites = []

    def __enter__(self):
        original = getattr(self.module, self.name)
        wrapped = self.factory(original)
        self.original, self.wrapped = original, wrapped
        for mod in list(sys.modules.values()):
            d = getattr(mod, "__dict__", None)
            if not d:
                continue
            for k, v in list(d.items()):
                if v is original:
                    try:
                        setattr(mod, k, wrapped)
                        self.sites.append((mod, k))
                    except Exception:
                        pass
        return self

    def __exit__(self, *exc):
        for mod, k in self.sites:
            try:
                setattr(mod, k, self.original)
            except Exception:
                pass
        return False


# --------------------------------------------------------------------------------------
# logical-step budget ("terminates" decided in interpreter steps inside codelimit, never wall clock)
# --------------------------------------------------------------------------------------
class BudgetExceeded(Exception):
    pass


class StepBudget:
    """sys.monitoring tool counting PY_START and JUMP/BRANCH-free 'PY_START + JUMP' events in code objects
    whose file lies under <repo>/codelimit/. Raises BudgetExceeded from the callback when the budget is spent."""

    TOOL = 3  # sys.monitoring.PROFILER_ID is 2, OPTIMIZER 5; 3 is free for tools

    def __init__(self):
        self.count = 0
        self.budget = None
        self.active = False
        self.prefix = os.path.join(REPO, "codelimit") + os.sep
        self.max_seen = 0

    def install(self):
        mon = sys.monitoring
        try:
            mon.use_tool_id(self.TOOL, "vf-steps")
        except ValueError:
            pass
        E = mon.events

        def on_start(code, offset):
            if not code.co_filename.startswith(self.prefix):
                return mon.DISABLE
            self.count += 1
            if self.budget is not None and self.count > self.budget:
                b = self.budget
                self.budget = None
                raise BudgetExceeded(f"more than {b} steps")

        def on_jump(code, offset, dest):
            if not code.co_filename.startswith(self.prefix):
                return mon.DISABLE
            self.count += 1
            if self.budget is not None and self.count > self.budget:
                b = self.budget
                self.budget = None
                raise BudgetExceeded(f"more than {b} steps")

        mon.register_callback(self.TOOL, E.PY_START, on_start)
        mon.register_callback(self.TOOL, E.JUMP, on_jump)
        mon.set_events(self.TOOL, E.PY_START | E.JUMP)
        self.active = True

    def uninstall(self):
        if self.active:
            sys.monitoring.set_events(self.TOOL, 0)
            sys.monitoring.free_tool_id(self.TOOL)
            self.active = False

    def start(self, budget):
        self.count = 0
        self.budget = budget

    def stop(self):
        self.budget = None
        self.max_seen = max(self.max_seen, self.count)
        return self.count


# --------------------------------------------------------------------------------------
# shard context: what a worker records
# --------------------------------------------------------------------------------------
def digest(obj) -> str:
    if not isinstance(obj, (str, bytes)):
        obj = json.dumps(obj, sort_keys=True, default=str)
    if isinstance(obj, str):
        obj = obj.encode("utf-8", "surrogatepass")
    return hashlib.blake2b(obj, digest_size=8).hexdigest()


class Ctx:
    """Collects what the monitors of one shard observed."""

    MAX_VIOLATIONS = 40
    MAX_SAMPLES = 4

    def __init__(self, prop, shard):
        self.prop = prop
        self.shard = shard
        self.evaluations = 0
        self.counters: dict[str, int] = {}
        self.nontrivial: set[str] = set()
        self.violations: list[dict] = []
        self.violation_total = 0
        self.samples: list = []
        self.notes: list[str] = []
        self.t0 = time.time()
        self.inconclusive: list[str] = []
        self.extra: dict = {}  # free-form per-shard data for a property's cross-shard `post` step

    def count(self, name, n=1):
        self.counters[name] = self.counters.get(name, 0) + n

    def maxi(self, name, v):
        if v > self.counters.get(name, 0):
            self.counters[name] = v

    def eval(self, n=1):
        self.evaluations += n

    def distinct(self, key):
        self.nontrivial.add(digest(key))

    def sample(self, obj):
        if len(self.samples) < self.MAX_SAMPLES:
            self.samples.append(obj)

    def violation(self, kind, case, detail, mechanism=None):
        """kind: short monitor name; case: JSON-serialisable replay input; detail: expected/observed."""
        self.violation_total += 1
        self.count("violations." + kind)
        if len(self.violations) < self.MAX_VIOLATIONS or (
            mechanism and sum(1 for v in self.violations if v.get("mechanism") == mechanism) < 3
        ):
            self.violations.append({"kind": kind, "case": case, "detail": detail, "mechanism": mechanism})

    def result(self):
        return {
            "shard": self.shard,
            "evaluations": self.evaluations,
            "counters": self.counters,
            "nontrivial": sorted(self.nontrivial),
            "violations": self.violations,
            "violation_total": self.violation_total,
            "samples": self.samples,
            "notes": self.notes,
            "inconclusive": self.inconclusive,
            "extra": self.extra,
            "wall_s": round(time.time() - self.t0, 3),
        }


def rng_for(seed, *parts) -> random.Random:
    h = hashlib.blake2b(repr((seed,) + parts).encode(), digest_size=8).digest()
    return random.Random(int.from_bytes(h, "big"))


def short_tb(limit=6):
    return traceback.format_exc(limit=-limit)


def clip(s, n=400):
    s = s if isinstance(s, str) else repr(s)
    return s if len(s) <= n else s[: n - 20] + f"...[+{len(s) - n + 20} chars]"
