"""The union workload G1 + G2 + G3 as one deterministic stream of (input class, text) per language."""
from __future__ import annotations

from vf import pipeline
from vf.gen import canon, hostile


def small_program(language, seed):
    return canon.generate(language, seed, None, target_functions=2, max_depth=3,
                          lengths=[3, 2, 4, 1, 2, 3, 1, 2, 2, 2, 1, 3])


def texts(language, rng, seed, sizes):
    """sizes: dict with canon, cut_programs, cut_cases, mutations, soups, corpus_cuts, corpus_mutations, targeted(bool)"""
    # G1: canonical programs
    for i in range(sizes.get("canon", 0)):
        p = canon.generate(language, f"{seed}:w{i}")
        yield "canonical", p.text
    # G2 (i): every prefix and every suffix of small canonical programs
    for i in range(sizes.get("cut_programs", 0)):
        p = small_program(language, f"{seed}:c{i}")
        for kind, off, t in hostile.cuts(p.text, rng, sizes.get("cut_cases", 4000)):
            yield kind, t
    # G2 (ii): line / token mutations of canonical programs
    for i in range(sizes.get("mutated_programs", 0)):
        p = canon.generate(language, f"{seed}:m{i}", None, target_functions=3)
        per = sizes.get("mutations", 50)
        for kind, ops, t in hostile.line_mutations(p.text, rng, per):
            yield kind, t
        raw = pipeline.raw_tokens(language, p.text)
        for kind, ops, t in hostile.token_mutations(p.text, raw, rng, per):
            yield kind, t
        for kind, ops, t in hostile.separator_mutations(p.text, rng, max(4, per // 3)):
            yield kind, t
    # G2 (iii): token soups
    for i in range(sizes.get("soups", 0)):
        yield "soup", hostile.soup(language, rng)
    if language in ("JavaScript", "TypeScript"):
        for i in range(sizes.get("soups", 0) // 3):
            yield "arrow_soup", hostile.arrow_soup(rng)
    # G2 (iv): targeted shapes
    if sizes.get("targeted", True):
        for t in hostile.targeted(language):
            yield "targeted", t
    # G3: real-world corpus, whole files, cuts and mutations
    files = hostile.corpus(language)
    k = sizes.get("corpus_files", len(files))
    for name, text in files[:k]:
        yield "corpus", text
    for name, text in files[:k]:
        for kind, off, t in hostile.cuts(text, rng, sizes.get("corpus_cuts", 6)):
            yield "corpus_" + kind, t
        for kind, ops, t in hostile.line_mutations(text, rng, sizes.get("corpus_mutations", 2)):
            yield "corpus_" + kind, t
