"""Input-independent oracles shared by several properties (C05 measurement invariants, C16 token positions)."""
from __future__ import annotations


def line_starts(text):
    starts = [0]
    for i, c in enumerate(text):
        if c == "\n":
            starts.append(i + 1)
    return starts


def offset_of(starts, line, column):
    return starts[line - 1] + column - 1


def locate(starts, offset):
    """(line, column) of a character offset, by binary search over line starts (monitor's own arithmetic)"""
    lo, hi = 0, len(starts) - 1
    while lo < hi:
        mid = (lo + hi + 1) // 2
        if starts[mid] <= offset:
            lo = mid
        else:
            hi = mid - 1
    return lo + 1, offset - starts[lo] + 1


# --------------------------------------------------------------------------------------------------
# C16
# --------------------------------------------------------------------------------------------------
def token_position_problems(text, tokens, filter_comments, raw=None, location_to_index=None, limit=3):
    """Problems (list of dicts) with the token list returned by lex(lexer, text, filter_comments).
    raw: the untouched Pygments stream [(offset, type, value)] for the reference comparison."""
    from pygments.token import Comment, Text

    problems = []
    starts = line_starts(text)
    n_lines = len(starts)
    lines = text.split("\n")
    prev_end = -1
    prev_off = -1
    for i, t in enumerate(tokens):
        ln, col = t.location.line, t.location.column
        if not (1 <= ln <= n_lines) or col < 1 or col > len(lines[ln - 1]) + 1:
            problems.append({"problem": "position_out_of_range", "index": i, "token": t.value[:30], "line": ln, "column": col})
            if len(problems) >= limit:
                break
            continue
        off = offset_of(starts, ln, col)
        if text[off:off + len(t.value)] != t.value:
            problems.append({"problem": "text_at_position_differs", "index": i, "token": t.value[:30], "line": ln, "column": col,
                             "found": text[off:off + len(t.value)][:30]})
        if off <= prev_off:
            problems.append({"problem": "not_strictly_increasing", "index": i, "token": t.value[:30], "line": ln, "column": col})
        elif off < prev_end:
            problems.append({"problem": "overlaps_previous", "index": i, "token": t.value[:30], "line": ln, "column": col})
        if t.token_type in Text and t.value.strip() == "":
            problems.append({"problem": "whitespace_token_kept", "index": i, "line": ln, "column": col, "value": repr(t.value)})
        if filter_comments and t.token_type in Comment:
            problems.append({"problem": "comment_kept_although_filtered", "index": i, "token": t.value[:30], "line": ln})
        if location_to_index is not None:
            try:
                li = location_to_index(text, t.location)
            except Exception as e:  # noqa
                li = f"{type(e).__name__}"
            if li != off:
                problems.append({"problem": "location_to_index_disagrees", "index": i, "line": ln, "column": col,
                                 "location_to_index": li, "monitor_offset": off})
        prev_off, prev_end = off, off + len(t.value)
        if len(problems) >= limit:
            break
    if raw is not None and len(problems) < limit:
        expected = []
        for off, tt, val in raw:
            if tt in Text and val.strip() == "":
                continue
            if filter_comments and tt in Comment:
                continue
            ln, col = locate(starts, off)
            expected.append((ln, col, str(tt), val))
        got = [(t.location.line, t.location.column, str(t.token_type), t.value) for t in tokens]
        if got != expected:
            # find first difference
            k = 0
            while k < min(len(got), len(expected)) and got[k] == expected[k]:
                k += 1
            problems.append({"problem": "differs_from_raw_lexer_stream", "first_difference_index": k,
                             "expected": list(expected[k]) if k < len(expected) else None,
                             "observed": list(got[k]) if k < len(got) else None,
                             "n_expected": len(expected), "n_observed": len(got)})
    return problems


# --------------------------------------------------------------------------------------------------
# C05
# --------------------------------------------------------------------------------------------------
def measurement_problems(text, tokens, measurements, limit=3):
    """tokens: the list passed to scan_file (comments kept, whitespace dropped)."""
    from pygments.token import Comment, Name, Text

    problems = []
    lines = text.split("\n")
    n_lines = len(lines)
    code = [t for t in tokens if not (t.token_type in Comment) and not (t.token_type in Text and t.value.strip() == "")]
    starts_set = {(t.location.line, t.location.column) for t in code}
    ends_set = set()
    for t in code:
        nl = t.value.count("\n")
        if nl:
            ends_set.add((t.location.line + nl, len(t.value) - t.value.rfind("\n")))
        else:
            ends_set.add((t.location.line, t.location.column + len(t.value)))
    prev = None
    for i, m in enumerate(measurements):
        s = (m.start.line, m.start.column)
        e = (m.end.line, m.end.column)
        d = {"index": i, "name": m.unit_name, "start": list(s), "end": list(e), "length": m.value}
        if not (1 <= s[0] <= e[0] <= n_lines):
            problems.append({"problem": "lines_out_of_range", "n_lines": n_lines, **d})
        elif not (1 <= s[1] <= len(lines[s[0] - 1]) + 1) or not (1 <= e[1] <= len(lines[e[0] - 1]) + 1):
            problems.append({"problem": "column_out_of_range", "start_line_len": len(lines[s[0] - 1]),
                             "end_line_len": len(lines[e[0] - 1]), **d})
        elif not (s < e):
            problems.append({"problem": "empty_or_reversed_span", **d})
        else:
            if s not in starts_set:
                problems.append({"problem": "start_is_not_a_code_token_position", **d})
            else:
                # ... and that token's text really is at this position of the input (independent of lex's own arithmetic)
                tok = next(t for t in code if (t.location.line, t.location.column) == s)
                first = tok.value.split("\n")[0]
                if lines[s[0] - 1][s[1] - 1: s[1] - 1 + len(first)] != first:
                    problems.append({"problem": "text_at_start_is_not_the_start_token", "token": tok.value[:30],
                                     "found": lines[s[0] - 1][s[1] - 1: s[1] - 1 + len(first)], **d})
            if e not in ends_set:
                problems.append({"problem": "end_is_not_just_past_a_code_token", **d})
            else:
                last = [t for t in code if (t.location.line + t.value.count("\n"),
                                            (len(t.value) - t.value.rfind("\n")) if "\n" in t.value else t.location.column + len(t.value)) == e]
                tail = last[0].value.split("\n")[-1]
                if tail and lines[e[0] - 1][max(0, e[1] - 1 - len(tail)): e[1] - 1] != tail:
                    problems.append({"problem": "text_before_end_is_not_the_end_token", "token": last[0].value[-30:],
                                     "found": lines[e[0] - 1][max(0, e[1] - 1 - len(tail)): e[1] - 1], **d})
            name_ok = [t for t in code if s <= (t.location.line, t.location.column) < e and t.token_type in Name and t.value == m.unit_name
                       and lines[t.location.line - 1][t.location.column - 1: t.location.column - 1 + len(t.value)] == t.value]
            if not name_ok and any(t.token_type in Name and t.value == m.unit_name for t in code
                                   if s <= (t.location.line, t.location.column) < e):
                problems.append({"problem": "name_token_is_not_where_its_position_says", **d})
            inside = [t for t in code if s <= (t.location.line, t.location.column) < e]
            if not any(t.token_type in Name and t.value == m.unit_name for t in inside):
                problems.append({"problem": "name_is_not_an_identifier_inside_the_span", **d})
            code_lines = len({t.location.line for t in inside})
            if not isinstance(m.value, int) or not (1 <= m.value <= code_lines):
                problems.append({"problem": "length_out_of_range", "code_bearing_lines_in_span": code_lines, **d})
        if prev is not None and not (prev < s):
            problems.append({"problem": "not_in_source_order_or_duplicate_start", "previous_start": list(prev), **d})
        prev = s
        if len(problems) >= limit:
            break
    return problems
