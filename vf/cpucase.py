"""Child process for C03's CPU-bounded monitor:  python -m vf.cpucase <cpu_seconds>   (cases as JSON on stdin)

Analyses each (language, text) case with the real lex + scan_file under RLIMIT_CPU. CPU time is immune to machine load, and
the kernel enforces it even while the interpreter sits inside a C extension (a catastrophic regular expression never returns
to the bytecode loop, so neither a step counter nor a signal handler can stop it). Progress is reported on stdout after every
case, so the parent knows which input was being analysed when the limit struck."""
import json
import resource
import sys


def main():
    limit = int(sys.argv[1])
    cases = json.load(sys.stdin)
    import vf  # noqa: F401
    from vf import pipeline

    pipeline.analyze("Python", "def warm(a):\n    return a\n")  # imports and lexer construction are not charged to a case
    used = resource.getrusage(resource.RUSAGE_SELF)
    base = int(used.ru_utime + used.ru_stime) + 1
    resource.setrlimit(resource.RLIMIT_CPU, (base + limit, base + limit + 5))
    for i, (lang, text) in enumerate(cases):
        print(f"START {i}", flush=True)
        try:
            pipeline.analyze(lang, text)
            print(f"DONE {i} ok", flush=True)
        except Exception as e:  # exceptions are judged by the in-process monitor; here only termination matters
            print(f"DONE {i} {type(e).__name__}", flush=True)
    print("ALL", flush=True)


if __name__ == "__main__":
    main()
