"""Independent reference semantics for pattern trees.

A tree is a nested tuple:
  ("atom", x) | ("seq", p, q) | ("alt", p, q) | ("opt", p) | ("star", p) | ("plus", p)
Two references, which the monitors also compare with each other:
  * Brzozowski derivatives on the tree (deriv / nullable / member / greedy_end / shortest_prefix)
  * Python's `re` on a translation to a regular expression over single characters
"""
from __future__ import annotations

import re
from functools import lru_cache

EMPTY = ("empty",)  # matches nothing
EPS = ("eps",)  # matches the empty word


def size(t) -> int:
    return 1 + sum(size(c) for c in t[1:] if isinstance(c, tuple))


@lru_cache(maxsize=None)
def nullable(t) -> bool:
    k = t[0]
    if k == "atom" or k == "empty":
        return False
    if k == "eps" or k == "opt" or k == "star":
        return True
    if k == "plus":
        return nullable(t[1])
    if k == "seq":
        return nullable(t[1]) and nullable(t[2])
    if k == "alt":
        return nullable(t[1]) or nullable(t[2])
    raise ValueError(k)


def _seq(p, q):
    if p == EMPTY or q == EMPTY:
        return EMPTY
    if p == EPS:
        return q
    if q == EPS:
        return p
    return ("seq", p, q)


def _alt(p, q):
    if p == EMPTY:
        return q
    if q == EMPTY:
        return p
    if p == q:
        return p
    return ("alt", p, q)


@lru_cache(maxsize=None)
def deriv(t, x):
    k = t[0]
    if k == "empty" or k == "eps":
        return EMPTY
    if k == "atom":
        return EPS if t[1] == x else EMPTY
    if k == "opt":
        return deriv(t[1], x)
    if k == "star":
        return _seq(deriv(t[1], x), t)
    if k == "plus":
        return _seq(deriv(t[1], x), ("star", t[1]))
    if k == "alt":
        return _alt(deriv(t[1], x), deriv(t[2], x))
    if k == "seq":
        d = _seq(deriv(t[1], x), t[2])
        if nullable(t[1]):
            return _alt(d, deriv(t[2], x))
        return d
    raise ValueError(k)


@lru_cache(maxsize=None)
def is_empty_language(t) -> bool:
    """True iff L(t) is empty (structural; exact for the simplified forms produced by _seq/_alt)."""
    k = t[0]
    if k == "empty":
        return True
    if k in ("eps", "atom", "opt", "star"):
        return False
    if k == "plus":
        return is_empty_language(t[1])
    if k == "seq":
        return is_empty_language(t[1]) or is_empty_language(t[2])
    if k == "alt":
        return is_empty_language(t[1]) and is_empty_language(t[2])
    raise ValueError(k)


@lru_cache(maxsize=None)
def star_height(t) -> int:
    k = t[0]
    if k in ("atom", "eps", "empty"):
        return 0
    h = max(star_height(c) for c in t[1:])
    return h + 1 if k in ("star", "plus") else h


@lru_cache(maxsize=None)
def has_nullable_repetition_body(t) -> bool:
    k = t[0]
    if k in ("atom", "eps", "empty"):
        return False
    if k in ("star", "plus") and nullable(t[1]):
        return True
    return any(has_nullable_repetition_body(c) for c in t[1:])


def re_is_safe(t, s) -> bool:
    """Python's backtracking engine is catastrophically exponential on repetitions whose body can match the empty word
    ((?:(?:(?:a)?)?)+)+ on 'aab' takes 20 s) and exponential in nesting depth x length otherwise; it is consulted as an
    additional reference only for short inputs, at most two nested repetitions and no repetition of a nullable body."""
    return len(s) <= 6 and size(t) <= 7 and star_height(t) <= 2 and not has_nullable_repetition_body(t)


def ends(t, s, i, memo):
    """Denotational reference, independent of derivatives: the set of j with s[i:j] in L(t). Polynomial."""
    key = (t, i)
    r = memo.get(key)
    if r is not None:
        return r
    k = t[0]
    if k == "atom":
        r = frozenset((i + 1,)) if i < len(s) and s[i] == t[1] else frozenset()
    elif k == "seq":
        r = frozenset(j2 for j in ends(t[1], s, i, memo) for j2 in ends(t[2], s, j, memo))
    elif k == "alt":
        r = ends(t[1], s, i, memo) | ends(t[2], s, i, memo)
    elif k == "opt":
        r = ends(t[1], s, i, memo) | {i}
    elif k in ("star", "plus"):
        reach = set()
        frontier = {i}
        first = True
        while frontier:
            new = set()
            for j in frontier:
                new |= ends(t[1], s, j, memo)
            if first and k == "star":
                reach.add(i)
            first = False
            frontier = new - reach
            reach |= new
        r = frozenset(reach)
    else:
        raise ValueError(k)
    memo[key] = r
    return r


def ends_member(t, s) -> bool:
    return len(s) in ends(t, tuple(s), 0, {})


def ends_shortest_nonempty_prefix(t, s):
    e = [j for j in ends(t, tuple(s), 0, {}) if j > 0]
    return min(e) if e else None


def member(t, s) -> bool:
    for x in s:
        t = deriv(t, x)
        if t == EMPTY:
            return False
    return nullable(t)


def shortest_nonempty_prefix(t, s):
    """Length of the shortest non-empty prefix of s that is in L(t), or None."""
    for i, x in enumerate(s):
        t = deriv(t, x)
        if is_empty_language(t):
            return None
        if nullable(t):
            return i + 1
    return None


def greedy_end(t, s, start):
    """Greedy run from `start`: advance while the derivative is non-empty; succeed iff the state reached
    when stuck (or at the end of input) is accepting. Returns the end index or None."""
    i = start
    while i < len(s):
        d = deriv(t, s[i])
        if is_empty_language(d):
            break
        t = d
        i += 1
    if i > start and nullable(t):
        return i
    return None


# ---- polynomial reference: ends and viable prefixes by structural recursion ----------------------------------------
def ends_viable(t, s, i, memo):
    """(E, V): E = {j : s[i:j] in L(t)}, V = {j : s[i:j] is a prefix of some word of L(t)}. All sub-languages are non-empty
    (trees are built from atoms), so V is prefix-closed and E is a subset of V. Cost O(|t| * |s|^2); no derivatives involved."""
    key = (t, i)
    r = memo.get(key)
    if r is not None:
        return r
    k = t[0]
    if k == "atom":
        hit = i < len(s) and s[i] == t[1]
        r = (frozenset((i + 1,)) if hit else frozenset(), frozenset((i, i + 1)) if hit else frozenset((i,)))
    elif k == "seq":
        e1, v1 = ends_viable(t[1], s, i, memo)
        e, v = set(), set(v1)
        for j in e1:
            e2, v2 = ends_viable(t[2], s, j, memo)
            e |= e2
            v |= v2
        r = (frozenset(e), frozenset(v))
    elif k == "alt":
        e1, v1 = ends_viable(t[1], s, i, memo)
        e2, v2 = ends_viable(t[2], s, i, memo)
        r = (e1 | e2, v1 | v2)
    elif k == "opt":
        e1, v1 = ends_viable(t[1], s, i, memo)
        r = (e1 | {i}, v1 | {i})
    elif k in ("star", "plus"):
        e, v = set(), {i}
        if k == "star":
            e.add(i)
        frontier, seen = {i}, set()
        while frontier:
            j = frontier.pop()
            if j in seen:
                continue
            seen.add(j)
            e1, v1 = ends_viable(t[1], s, j, memo)
            v |= v1
            for x in e1:
                e.add(x)
                if x not in seen:
                    frontier.add(x)
        r = (frozenset(e), frozenset(v))
    else:
        raise ValueError(k)
    memo[key] = r
    return r


def p_member(t, s):
    s = tuple(s)
    return len(s) in ends_viable(t, s, 0, {})[0]


def p_shortest_nonempty_prefix(t, s):
    s = tuple(s)
    e = [j for j in ends_viable(t, s, 0, {})[0] if j > 0]
    return min(e) if e else None


def p_greedy_end(t, s, start, memo=None):
    """the deterministic run: consume while the consumed text is a prefix of some word; succeed iff it then is a word"""
    s = tuple(s)
    e, v = ends_viable(t, s, start, {} if memo is None else memo)
    m = max(v)
    return m if m > start and m in e else None


def p_longest_end(t, s, start, memo=None):
    s = tuple(s)
    e = [j for j in ends_viable(t, s, start, {} if memo is None else memo)[0] if j > start]
    return max(e) if e else None


DERIVATIVES_ARE_CHEAP = 9  # derivative-based functions are used as a cross-check only for trees up to this many nodes


# ---- translation to Python re (atoms are single characters) -------------------------------------
def to_re(t) -> str:
    k = t[0]
    if k == "atom":
        return re.escape(t[1])
    if k == "seq":
        return to_re(t[1]) + to_re(t[2])
    if k == "alt":
        return f"(?:{to_re(t[1])}|{to_re(t[2])})"
    if k == "opt":
        return f"(?:{to_re(t[1])})?"
    if k == "star":
        return f"(?:{to_re(t[1])})*"
    if k == "plus":
        return f"(?:{to_re(t[1])})+"
    raise ValueError(k)


@lru_cache(maxsize=4096)
def compiled(t):
    return re.compile(to_re(t))


def re_member(t, s) -> bool:
    return compiled(t).fullmatch("".join(s)) is not None


def re_shortest_nonempty_prefix(t, s):
    c = compiled(t)
    text = "".join(s)
    for i in range(1, len(text) + 1):
        if c.fullmatch(text, 0, i):
            return i
    return None


# ---- enumeration ---------------------------------------------------------------------------------
def trees_of_size(n, alphabet):
    """All trees with exactly n nodes (binary seq/alt, unary opt/star/plus, atoms)."""
    return _trees(n, tuple(alphabet))


@lru_cache(maxsize=None)
def _trees(n, alphabet):
    if n <= 0:
        return ()
    if n == 1:
        return tuple(("atom", a) for a in alphabet)
    out = []
    for sub in _trees(n - 1, alphabet):
        out.append(("opt", sub))
        out.append(("star", sub))
        out.append(("plus", sub))
    for k in range(1, n - 1):
        for left in _trees(k, alphabet):
            for right in _trees(n - 1 - k, alphabet):
                out.append(("seq", left, right))
                out.append(("alt", left, right))
    return tuple(out)


def sequences(alphabet, max_len):
    out = [()]
    frontier = [()]
    for _ in range(max_len):
        frontier = [s + (a,) for s in frontier for a in alphabet]
        out.extend(frontier)
    return out


def random_tree(rng, size_budget, alphabet):
    if size_budget <= 1:
        return ("atom", rng.choice(alphabet))
    k = rng.choice(["seq", "seq", "alt", "opt", "star", "plus", "atom"])
    if k == "atom":
        return ("atom", rng.choice(alphabet))
    if k in ("opt", "star", "plus"):
        return (k, random_tree(rng, size_budget - 1, alphabet))
    left = rng.randint(1, max(1, size_budget - 2))
    return (k, random_tree(rng, left, alphabet), random_tree(rng, size_budget - 1 - left, alphabet))
