"""Reference for C11: which files of a tree contribute to a scan.

Independent of pathspec: a matcher for the five unambiguous gitignore pattern classes (bare name, 'dir/', '*.ext',
anchored 'a/b', 'a/*'), the dot-component rule and the built-in exclusion names. The language of a file is the one
Pygments itself assigns to the base name (Pygments is trusted base; codelimit's use of it is what is tested).
"""
from __future__ import annotations

from fnmatch import fnmatchcase

SUPPORTED = {"C", "C++", "C#", "Java", "JavaScript", "TypeScript", "Python"}
BUILTIN = [".bzr", ".direnv", ".eggs", ".git", ".git-rewrite", ".hg", ".ipynb_checkpoints", ".mypy_cache", ".nox", ".pants.d",
           ".pytest_cache", ".pytype", ".ruff_cache", ".svn", ".tox", ".venv", ".vscode", "__pypackages__", "_build", "buck-out",
           "build", "dist", "node_modules", "venv", "test", "tests"]


def pattern_matches(pattern, parts):
    """parts: components of a FILE path relative to the root"""
    if pattern.endswith("/"):
        name = pattern[:-1]
        if "/" not in name:
            return any(fnmatchcase(p, name) for p in parts[:-1])  # a directory of that name, at any depth
        pp = name.split("/")
        return len(parts) > len(pp) and parts[:len(pp)] == pp  # anchored directory
    if "/" not in pattern:
        return any(fnmatchcase(p, pattern) for p in parts)  # file or directory of that name / glob, at any depth
    pp = pattern.split("/")
    if pp[-1] == "*":
        prefix = pp[:-1]
        return len(parts) > len(prefix) and parts[:len(prefix)] == prefix
    return parts[:len(pp)] == pp  # anchored path: the file itself or anything beneath it


def language_of(basename):
    from pygments.lexers import get_lexer_for_filename
    from pygments.util import ClassNotFound

    try:
        return get_lexer_for_filename(basename).name
    except ClassNotFound:
        return None


def qualifies(rel, exclusions):
    """rel: '/'-separated path of a file below the root. Returns the language or None."""
    parts = rel.split("/")
    if any(p.startswith(".") for p in parts):
        return None
    for pat in list(BUILTIN) + list(exclusions):
        if pattern_matches(pat, parts):
            return None
    lang = language_of(parts[-1])
    return lang if lang in SUPPORTED else None
