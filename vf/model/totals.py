"""Reference recomputation of totals, profiles and the folder tree from the flat list of files (C07)."""
from __future__ import annotations


def cat(L):
    return 0 if L <= 15 else 1 if L <= 30 else 2 if L <= 60 else 3


def profile_of(lengths):
    p = [0, 0, 0, 0]
    for v in lengths:
        p[cat(v)] += v
    return p


def add(p, q):
    return [a + b for a, b in zip(p, q)]


def expected(spec):
    """spec: {'entries': [{'path', 'language', 'loc', 'measurements': [[name, start, end, value]...]}]}"""
    totals = {}
    file_profiles = {}
    folders = {"./": {"files": [], "folders": [], "profile": [0, 0, 0, 0]}}

    def ensure_folder(parts):
        key = "/".join(parts) + "/" if parts else "./"
        if key not in folders:
            folders[key] = {"files": [], "folders": [], "profile": [0, 0, 0, 0]}
            parent = ensure_folder(parts[:-1])
            folders[parent]["folders"].append(parts[-1] + "/")
        return key

    for e in spec["entries"]:
        vals = [m[3] for m in e["measurements"]]
        t = totals.setdefault(e["language"], {"files": 0, "lines_of_code": 0, "functions": 0, "hard_to_maintain": 0, "unmaintainable": 0})
        t["files"] += 1
        t["lines_of_code"] += e["loc"]
        t["functions"] += len(vals)
        t["hard_to_maintain"] += sum(1 for v in vals if cat(v) == 2)
        t["unmaintainable"] += sum(1 for v in vals if cat(v) == 3)
        fp = profile_of(vals)
        file_profiles[e["path"]] = fp
        parts = e["path"].split("/")
        key = ensure_folder(parts[:-1])
        folders[key]["files"].append(parts[-1])
        for i in range(len(parts)):
            k = "/".join(parts[:i]) + "/" if i else "./"
            folders[k]["profile"] = add(folders[k]["profile"], fp)
    grand = {k: sum(t[k] for t in totals.values()) for k in ("files", "lines_of_code", "functions", "hard_to_maintain", "unmaintainable")}
    return {"totals": totals, "file_profiles": file_profiles, "folders": folders, "grand": grand}
