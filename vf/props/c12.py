"""C12 - check and scan agree on every file.

Monitor shape: differential monitor between two real entry points on the same tree with the working directory at
the codebase root: scan_path(root) is the reference, check_command is run for every file and every way of reaching
it (relative file path, parent directory, root directory, absolute directory); a wrapper around CheckResult.add
records which files were checked with which functions, and the printed listing is parsed as well.
"""
from __future__ import annotations

import contextlib
import io
import os
import re
import shutil
import tempfile
from pathlib import Path

from vf.common import rng_for, short_tb
from vf.gen import canon, hostile, trees as TG
from vf.model import select as S

ID = "C12"
LEVEL = "exploration"
TECHNIQUE = ("differential monitor: real check_command (CheckResult.add wrapper + parsed listing + exit status) vs real scan_path "
             "on the same generated tree, for every file x every way of reaching it x exclusion lists; canonical, malformed and "
             "non-UTF-8 file contents")
RULE = ("one case = (tree, exclusion list, way of reaching: each relative file path, each non-hidden parent directory, '.', the "
        "absolute root); files hold canonical functions of 10-75 lines, truncated programs, Latin-1 bytes, and sit under hidden, "
        "built-in-excluded and ordinary names; non-trivial = the way reaches at least one file with a function longer than 30 lines; "
        "distinct = distinct (tree, exclusions, way)")
ASSUMPTIONS = ["the working directory is the codebase root (as the property states)",
               "hidden files named explicitly and hidden directories given as the target are not judged (the property constrains hidden "
               "files only when reached through a directory)"]
BOUNDS = {"quick": dict(n=32, trees=1500), "thorough": dict(n=64, trees=40000)}
MINIMUM = {"quick": {"monitor.check_runs": 8000, "monitor.files_compared": 15000, "monitor.listing_lines_parsed": 2500},
           "thorough": {"monitor.check_runs": 200000, "monitor.files_compared": 400000, "monitor.listing_lines_parsed": 50000}}
LANG_OF_EXT = {".py": "Python", ".js": "JavaScript", ".ts": "TypeScript", ".c": "C", ".cpp": "C++", ".cs": "C#", ".java": "Java"}
LINE = re.compile(r"^(?P<path>.+?):(?P<line>\d+):(?P<col>\d+): (?P<len>\d+) (?P<sym>\S) (?P<name>.+)$")


def shards(tier, seed):
    b = BOUNDS[tier]
    return [{"part": i, "parts": b["n"], **b} for i in range(b["n"])]


def tree_with_long_functions(rng):
    files = TG.random_tree(rng, max_dirs=8, max_files=14)
    out = {}
    for i, (rel, data) in enumerate(sorted(files.items())):
        ext = os.path.splitext(rel)[1]
        lang = LANG_OF_EXT.get(ext)
        if lang is None and ext in (".h", ".hh", ".hpp", ".hxx", ".cc", ".cxx", ".mjs", ".cjs", ".pyw", ".pyi"):
            # other extensions of the supported languages; headers get content that a content-based lexer guess would read as
            # Objective-C (Doxygen @endcode, @protocol, @"...", no #include) - the language must follow from the NAME alone
            base_lang = S.language_of(rel.split("/")[-1])
            if base_lang in ("C", "C++", "JavaScript", "Python"):
                body = canon.file_with_functions(base_lang, [max(2, rng.choice([12, 31, 45, 61, 75])) for _ in range(rng.randint(1, 3))], prefix=f"h{i}x")
                lead = "" if base_lang == "Python" else rng.choice(["/** @code x @endcode */\n", "// @protocol Foo @end\n", "/* s = @\"str\" */\n", "",
                                                                  "#import <Foundation/Foundation.h>\n", "// @implementation\n@interface X\n@end\n"])
                out[rel] = (lead + body).encode()
                continue
        if lang is None:
            out[rel] = data
            continue
        lengths = [rng.choice([10, 29, 30, 31, 32, 45, 60, 61, 62, 75, 12]) for _ in range(rng.choice([1, 1, 2, 2, 3, 4]))]
        if lang == "Python":
            lengths = [max(2, x) for x in lengths]
        text = canon.file_with_functions(lang, lengths, prefix=f"u{i}x")
        k = rng.random()
        if k < 0.12:
            text = text[: rng.randrange(len(text) + 1)]  # truncated in the middle of something
            body = text.encode()
        elif k < 0.24:
            lead = "# caf\xe9 \xfc\n" if lang == "Python" else "// caf\xe9 \xfc\n"
            body = lead.encode("latin-1") + text.encode()
            if rng.random() < 0.6:
                # Latin-1 bytes inside identifiers and function names: the decoding decides what the tokens are
                body = body.replace(f"u{i}x".encode(), f"u{i}\xe9x".encode("latin-1")).replace(b" a, ", b" a\xfc, ")
        elif k < 0.3:
            body = text.replace("\n", "\r\n").encode()
        elif k < 0.55:
            body = text.rstrip("\n").encode()  # last line not newline-terminated; often a single function filling the whole file
        else:
            body = text.encode()
        out[rel] = body
    if rng.random() < 0.35:
        # twins: the same bytes as C and as C++ (C keeps the block macro inside the function, C++ reports it as a nested unit),
        # and as JavaScript and TypeScript (': {' after a call is a header for TypeScript only)
        n = rng.choice([28, 34, 58, 66])
        c_body = "int drain(struct q *q) {\n  LIST_FOREACH(it, q) {\n" + "".join(f"    use{k}(it);\n" for k in range(n)) + "  }\n  return 0;\n}\n"
        j_body = "function pick(c, a) {\n  return c ? run(a) : {\n" + "".join(f"    k{k}: {k},\n" for k in range(n)) + "  };\n}\n"
        d1, d2 = rng.choice([("src", "port"), ("", "lib"), ("a", "a")])
        pre1 = (d1 + "/") if d1 else ""
        pre2 = (d2 + "/") if d2 else ""
        if rng.random() < 0.5:
            out[pre1 + "twin_drain.c"] = c_body.encode()
            out[pre2 + "twin_drain.cpp"] = c_body.encode()
        else:
            out[pre1 + "twin_pick.js"] = j_body.encode()
            out[pre2 + "twin_pick.ts"] = j_body.encode()
    return out


def wild_patterns(rng, files):
    """gitignore syntax beyond the five classes (negation, **, leading slash, character classes): C12 is differential, scan_path
    itself is the reference, so no independent semantics of these patterns is needed"""
    comps = sorted({c for f in files for c in f.split("/")[:-1] if not c.startswith(".")} | {"src"})
    names = sorted({f.split("/")[-1] for f in files})
    out = []
    for _ in range(rng.randint(1, 3)):
        k = rng.random()
        c, n = rng.choice(comps), rng.choice(names)
        if k < 0.35:
            # exclude a directory (bare name), then re-include something below it
            out += [c, "!" + c + "/" + n] if rng.random() < 0.6 else [c, "!" + c + "/**/" + n, "!" + c + "/*/"]
        elif k < 0.5:
            out.append("**/" + n)
        elif k < 0.6:
            out.append("/" + c)
        elif k < 0.7:
            out.append(c + "/**")
        elif k < 0.8:
            out.append("*.[cj]*")
        elif k < 0.9:
            out += ["*.py", "!" + n]
        else:
            out.append("?" + n[1:] if len(n) > 1 else n)
    return out


class Recorder:
    """wrapper around the real CheckResult.add: which files were checked, with which measurements"""

    def __init__(self):
        from codelimit.common.CheckResult import CheckResult

        self.C = CheckResult
        self.orig = CheckResult.add
        self.calls = []
        rec = self

        def add(self_, file, measurements):
            rec.calls.append((Path(file), list(measurements)))
            return rec.orig(self_, file, measurements)

        self.wrapped = add

    def __enter__(self):
        self.C.add = self.wrapped
        return self

    def __exit__(self, *a):
        self.C.add = self.orig
        return False


def run_check(root, way, exclusions):
    import typer
    from codelimit.commands.check import check_command
    from codelimit.common.Configuration import Configuration

    Configuration.exclude = list(exclusions)
    old = os.getcwd()
    os.chdir(root)
    buf = io.StringIO()
    code = None
    try:
        with Recorder() as rec, contextlib.redirect_stdout(buf):
            try:
                check_command([Path(way)], False)
            except typer.Exit as e:
                code = e.exit_code
        calls = rec.calls
    finally:
        os.chdir(old)
        Configuration.exclude = []
    return code, calls, buf.getvalue()


def norm(root, p):
    ap = p if os.path.isabs(str(p)) else os.path.join(root, str(p))
    return os.path.relpath(os.path.realpath(ap), root).replace(os.sep, "/")


def risks_of(ms):
    return [(m.unit_name, m.start.line, m.start.column, m.value) for m in sorted([m for m in ms if m.value > 30], key=lambda m: -m.value)]


def one_tree(ctx, rng):
    from codelimit.common.Configuration import Configuration
    from codelimit.common.Scanner import scan_path

    files = tree_with_long_functions(rng)
    exclusions = TG.random_exclusions(rng, files) if rng.random() < 0.7 else []
    if rng.random() < 0.45:
        exclusions = exclusions + wild_patterns(rng, files)
    use_gitignore = rng.random() < 0.3
    root = os.path.realpath(tempfile.mkdtemp(prefix="vf-c12-"))
    try:
        TG.materialise(root, files)
        conf_ex = list(exclusions)
        if use_gitignore and exclusions:
            with open(os.path.join(root, ".gitignore"), "w") as f:
                f.write("\n".join(exclusions) + "\n")
            conf_ex = []
        case = {"files": {k: v.decode("latin-1") for k, v in files.items()}, "exclusions": exclusions, "gitignore": use_gitignore}
        Configuration.exclude = list(conf_ex)
        old = os.getcwd()
        os.chdir(root)
        try:
            scan = scan_path(Path(root))
        except Exception as e:
            ctx.notes.append(f"scan_path raised {type(e).__name__} (C03's concern); tree skipped")
            return
        finally:
            os.chdir(old)
            Configuration.exclude = []
        scanned = {k.replace(os.sep, "/"): risks_of(e.measurements()) for k, e in scan.files.items()}

        def hidden(rel):
            return any(p.startswith(".") for p in rel.split("/"))

        def supported(rel):
            return S.language_of(rel.split("/")[-1]) in S.SUPPORTED

        ways = []
        for rel in sorted(files):
            if not hidden(rel):
                ways.append(("relative_file", rel))
        dirs = sorted({"/".join(r.split("/")[:i]) for r in files for i in range(1, len(r.split("/")))})
        for d in dirs:
            if not hidden(d):
                ways.append(("relative_dir", d))
                if rng.random() < 0.3:
                    ways.append(("absolute_dir", os.path.join(root, d)))
        ways.append(("root_dot", "."))
        ways.append(("absolute_root", root))
        for kind, way in ways:
            ctx.eval()
            wcase = dict(case, way=[kind, way if kind != "absolute_root" and kind != "absolute_dir" else os.path.relpath(way, root)])
            try:
                code, calls, out = run_check(root, way, conf_ex)
            except Exception as e:
                ctx.violation("check_exception", wcase, {"way": kind, "error": f"{type(e).__name__}: {e}", "tb": short_tb(6)})
                continue
            ctx.count("monitor.check_runs")
            ctx.count("ways." + kind)
            checked = {}
            for f, ms in calls:
                checked.setdefault(norm(root, f), []).extend(ms)
            checked = {k: [(m.unit_name, m.start.line, m.start.column, m.value) for m in v] for k, v in checked.items()}
            # which files must have been checked through this way
            if kind == "relative_file":
                scope = [way]
            else:
                rel_dir = norm(root, way)
                prefix = "" if rel_dir == "." else rel_dir + "/"
                scope = [r for r in files if r.startswith(prefix)]
            reached_long = False
            for rel in scope:
                ctx.count("monitor.files_compared")
                if rel in scanned:
                    if rel not in checked:
                        ctx.violation("file_scanned_but_not_checked", wcase, {"file": rel, "way": kind})
                    elif checked[rel] != scanned[rel]:
                        ctx.violation("functions_differ", wcase, {"file": rel, "way": kind, "scan_over_30": scanned[rel][:5], "check": checked[rel][:5]})
                    if scanned[rel]:
                        reached_long = True
                else:
                    # scan does not report this file: excluded, hidden, or not a supported language
                    if rel in checked:
                        if hidden(rel):
                            if kind != "relative_file":
                                ctx.violation("hidden_file_checked_via_directory", wcase, {"file": rel, "way": kind})
                        elif supported(rel):
                            ctx.violation("excluded_file_checked", wcase, {"file": rel, "way": kind, "exclusions": exclusions})
                        else:
                            ctx.violation("unsupported_file_checked", wcase, {"file": rel, "way": kind})
            extra = [k for k in checked if k not in scope]
            if extra:
                ctx.violation("file_outside_the_target_checked", wcase, {"files": extra[:5], "way": kind})
            # the printed listing says the same as the recorded calls
            printed = {}
            for ln in out.split("\n"):
                m = LINE.match(ln.strip())
                if m:
                    ctx.count("monitor.listing_lines_parsed")
                    printed.setdefault(norm(root, m.group("path")), []).append(
                        (m.group("name"), int(m.group("line")), int(m.group("col")), int(m.group("len"))))
            want_printed = {k: v for k, v in checked.items() if v}
            if printed != want_printed:
                ctx.violation("listing_differs_from_checked", wcase, {"way": kind, "printed": dict(list(printed.items())[:3]),
                                                                      "checked": dict(list(want_printed.items())[:3])})
            exp_code = 1 if any(v[3] > 60 for vs in checked.values() for v in vs) else 0
            if code != exp_code:
                ctx.violation("exit_status", wcase, {"way": kind, "expected": exp_code, "observed": code})
            if reached_long:
                ctx.distinct([sorted(files), exclusions, kind, way if kind.startswith("relative") else kind])
    finally:
        shutil.rmtree(root, ignore_errors=True)


def run(shard, ctx):
    rng = rng_for(shard["seed"], "c12", shard["part"])
    for i in range(shard["trees"] // shard["parts"]):
        one_tree(ctx, rng)
        ctx.count("cases.trees")
    f = tree_with_long_functions(rng)
    ctx.sample({"tree": sorted(f)[:10], "ways": ["relative_file", "relative_dir", "absolute_dir", "root_dot", "absolute_root"]})


def replay(case, ctx):
    files = {k: v.encode("latin-1") for k, v in case["files"].items()}
    import vf.props.c12 as me

    orig, orig_ex = me.tree_with_long_functions, TG.random_exclusions
    me.tree_with_long_functions = lambda rng: dict(files)
    TG.random_exclusions = lambda rng, f: list(case["exclusions"])
    try:
        for s in range(6):
            one_tree(ctx, rng_for(s, "c12r"))
    finally:
        me.tree_with_long_functions, TG.random_exclusions = orig, orig_ex


LEVEL_TEXT = ("The two real commands are run on the same generated trees and compared file by file for every way of reaching a file: "
              "same functions over 30 lines with the same names, positions and lengths, same decoding, same skipping of excluded and "
              "hidden files, nothing outside the target. Differential exploration; right level because the property is an agreement "
              "between two implementations of one walk/filter/read pipeline.")
LEVEL_NOTE = "Trusted: scan_path as the reference side (its own correctness is C01/C11); the listing parser."
