"""C18 - rendered report, diff and findings show exactly the stored numbers.

Monitor shape: reference-model monitor over recorded output. The real format_text / format_markdown renderers (and
report_command / findings_command on a cache written to disk) print to a wide recording console; the monitor parses
what was printed and compares it with numbers recomputed from the Report objects: per-language and total figures,
row order, (+/-d) annotations against a previous report, findings list, cut-off and "N more rows".
"""
from __future__ import annotations

import contextlib
import io
import json
import os
import re
import shutil
import tempfile
from pathlib import Path

from vf.common import clip, rng_for, short_tb
from vf.gen import codebases as G

ID = "C18"
LEVEL = "exploration"
TECHNIQUE = ("parse of the real text/Markdown renderers' output on a recording console (and of report_command / findings_command "
             "stdout) compared with figures recomputed from the Report objects: overview rows, order, deltas against a previous "
             "report, findings list, 10-row cut-off and omitted-row count; each report pair is rendered repeatedly in alternating "
             "formats against a pre-render snapshot, and the stored totals are re-read afterwards (rendering must not alter them)")
RULE = ("one case = (current report, optional previous report) built from random codebases; the previous report is derived from the "
        "current one by edits (files added/removed/changed, languages added/removed) or is unrelated or identical; findings cases "
        "have 0..25 functions longer than 30 lines around the 10-row cut-off, full / not full, with / without repository; both "
        "formats; non-trivial = a previous report is given and differs in at least one figure, or the report has more than 10 findings; "
        "distinct = distinct (current totals, previous totals, findings lengths)")
ASSUMPTIONS = ["LC_ALL=C.UTF-8 (no thousands separators) and a console 400 columns wide, so no cell is wrapped or truncated",
               "file paths and function names of the workload contain no '[' (rich console markup in the Markdown renderer is not part of the property)",
               "a totals row is required only with two or more languages (with one language that row is the total)"]
BOUNDS = {"quick": dict(n=32, pairs=10000, findings=3000, commands=4), "thorough": dict(n=64, pairs=300000, findings=60000, commands=40)}
MINIMUM = {"quick": {"monitor.overviews_parsed": 15000, "monitor.findings_parsed": 10000, "monitor.delta_cells_checked": 100000,
                     "monitor.command_runs": 500, "monitor.cli_runs": 40},
           "thorough": {"monitor.overviews_parsed": 500000, "monitor.findings_parsed": 200000, "monitor.delta_cells_checked": 3000000,
                        "monitor.command_runs": 2000}}
LANGS = ["C", "C++", "C#", "Java", "JavaScript", "TypeScript", "Python"]
CELL = re.compile(r"(\d+)(?: \(([+-]\d+)\))?")
FIELDS = ["files", "functions", "loc", "hard_to_maintain", "unmaintainable"]


def shards(tier, seed):
    b = BOUNDS[tier]
    return [{"part": i, "parts": b["n"], **b} for i in range(b["n"])]


# ------------------------------------------------------------------------------------------------
def spec(rng, max_files=14):
    s = G.codebase_spec(rng, max_files=max_files)
    for e in s["entries"]:
        e["path"] = e["path"].replace("[", "(")
    return s


def derive_previous(rng, cur):
    """a previous report related to the current one: some files dropped / changed / added, languages may appear or vanish"""
    k = rng.random()
    if k < 0.15:
        return json.loads(json.dumps(cur))  # identical
    if k < 0.25:
        return spec(rng)  # unrelated
    prev = json.loads(json.dumps(cur))
    ents = prev["entries"]
    for _ in range(rng.randint(1, 4)):
        op = rng.choice(["drop", "change", "add", "drop_language", "add_language", "port", "port", "swap_languages"])
        if op == "drop" and ents:
            ents.pop(rng.randrange(len(ents)))
        elif op == "change" and ents:
            e = rng.choice(ents)
            e["measurements"] = [[f"g{i}", [1, 1], [2, 1], v] for i, v in enumerate(G.lengths(rng))]
            e["loc"] = sum(m[3] for m in e["measurements"])
        elif op == "add":
            lang = rng.choice(LANGS)
            ents.append(G.entry_spec(rng, f"added/n{rng.randint(0, 999)}{G.LANG_EXT[lang]}", lang))
        elif op == "port" and ents:
            # a file ported to another language: every grand total stays the same, two languages change in opposite directions
            e = rng.choice(ents)
            other = rng.choice([l for l in LANGS if l != e["language"]])
            e["language"] = other
            e["path"] = e["path"].rsplit(".", 1)[0] + f"_ported{rng.randint(0, 99)}" + G.LANG_EXT[other]
        elif op == "swap_languages" and len({e["language"] for e in ents}) >= 2:
            a, b = rng.sample(sorted({e["language"] for e in ents}), 2)
            for e in ents:
                e["language"] = b if e["language"] == a else a if e["language"] == b else e["language"]
        elif op == "drop_language" and ents:
            lang = rng.choice(ents)["language"]
            ents[:] = [e for e in ents if e["language"] != lang]
        elif op == "add_language":
            lang = rng.choice(LANGS)
            for i in range(rng.randint(1, 2)):
                ents.append(G.entry_spec(rng, f"newlang/m{i}_{rng.randint(0, 999)}{G.LANG_EXT[lang]}", lang))
    seen = set()
    prev["entries"] = [e for e in ents if not (e["path"] in seen or seen.add(e["path"]))]
    return prev


def make_report(s, repository=False):
    from codelimit.common.GithubRepository import GithubRepository
    from codelimit.common.report.Report import Report

    cb = G.build_codebase(s)
    cb.aggregate()
    return Report(cb, GithubRepository("owner", "repo", branch="main") if repository else None)


def totals_of(report):
    return {k: {"files": v.files, "functions": v.functions, "loc": v.loc, "hard_to_maintain": v.hard_to_maintain,
                "unmaintainable": v.unmaintainable} for k, v in report.codebase.totals.items()}


def grand(t):
    return {f: sum(v[f] for v in t.values()) for f in FIELDS}


def console():
    from rich.console import Console

    return Console(record=True, width=400, force_terminal=False, color_system=None, file=io.StringIO())


def parse_overview(text, languages):
    """rows: {language: [(value, delta|None) x5]}, order of language rows, totals row or None"""
    rows, order, totals = {}, [], None
    langs = sorted(languages, key=len, reverse=True)
    for ln in text.split("\n"):
        s = ln.strip().strip("|").strip()
        if not s or "---" in s or "Language" in s:
            continue
        lang = None
        plain = s.replace("*", "")
        for l in langs:
            if plain.startswith(l) and (len(plain) == len(l) or plain[len(l)] in " |"):
                lang = l
                break
        cells = [(int(a), int(b) if b else None) for a, b in CELL.findall(plain[len(lang):] if lang else plain)]
        if lang is not None and len(cells) == 5:
            rows[lang] = cells
            order.append(lang)
        elif lang is None and len(cells) == 5 and ("Totals" in plain or not re.search(r"[A-Za-z]", plain)):
            totals = cells
    return rows, order, totals


def check_overview(ctx, case, fmt, text, cur_t, prev_t):
    ctx.count("monitor.overviews_parsed")
    rows, order, totals = parse_overview(text, list(cur_t))
    detail = {"format": fmt, "text": clip(text, 600)}
    if set(rows) != set(cur_t):
        ctx.violation("overview_languages", case, {"expected": sorted(cur_t), "observed": sorted(rows), **detail})
        return
    locs = [cur_t[l]["loc"] for l in order]
    if any(locs[i] < locs[i + 1] for i in range(len(locs) - 1)):
        ctx.violation("overview_order", case, {"order": order, "loc": locs, **detail})
    for lang, cells in rows.items():
        for f, (val, delta) in zip(FIELDS, cells):
            if val != cur_t[lang][f]:
                ctx.violation("overview_number", case, {"language": lang, "field": f, "stored": cur_t[lang][f], "shown": val, **detail})
            if prev_t is not None and lang in prev_t:
                ctx.count("monitor.delta_cells_checked")
                d = cur_t[lang][f] - prev_t[lang][f]
                if (d != 0 and delta != d) or (d == 0 and delta is not None):
                    ctx.violation("overview_delta", case, {"language": lang, "field": f, "current": cur_t[lang][f],
                                                           "previous": prev_t[lang][f], "shown_delta": delta, **detail})
            elif prev_t is None and delta is not None:
                ctx.violation("overview_delta_without_previous", case, {"language": lang, "field": f, **detail})
    g = grand(cur_t)
    if len(cur_t) > 1:
        if totals is None:
            ctx.violation("overview_no_totals_row", case, detail)
            return
        gp = grand(prev_t) if prev_t is not None else None
        for f, (val, delta) in zip(FIELDS, totals):
            if val != g[f]:
                ctx.violation("overview_total", case, {"field": f, "stored": g[f], "shown": val, **detail})
            if gp is not None:
                ctx.count("monitor.delta_cells_checked")
                d = g[f] - gp[f]
                if (d != 0 and delta != d) or (d == 0 and delta is not None):
                    ctx.violation("overview_total_delta", case, {"field": f, "current": g[f], "previous": gp[f], "shown_delta": delta, **detail})
            elif delta is not None:
                ctx.violation("overview_delta_without_previous", case, {"field": f, **detail})
    return rows, totals


def render_overviews(ctx, case, cur, prev):
    from codelimit.common.report import format_markdown, format_text

    cur_t = totals_of(cur)
    prev_t = totals_of(prev) if prev is not None else None
    parsed = {}
    # every render is judged against the figures stored BEFORE any rendering; the same in-memory reports are rendered
    # text, markdown, text, markdown so that a renderer that alters a report (or keeps state between calls) shows up in
    # a later render of either format, and the stored totals are compared with the snapshot afterwards
    for nth, (fmt, fn) in enumerate((("text", format_text.print_totals), ("markdown", format_markdown.print_totals)) * 2):
        con = console()
        ctx.eval()
        try:
            fn(con, cur, prev)
        except Exception as e:
            ctx.violation("render_exception", case, {"format": fmt, "render_no": nth, "error": f"{type(e).__name__}: {e}", "tb": short_tb(5)})
            continue
        res = check_overview(ctx, case, fmt, con.export_text(), cur_t, prev_t)
        parsed.setdefault(fmt, res)
        if nth >= 2:
            ctx.count("monitor.overview_rerendered")
    if totals_of(cur) != cur_t or (prev is not None and totals_of(prev) != prev_t):
        ctx.violation("render_altered_stored_totals", case, {"current_before": cur_t, "current_after": totals_of(cur),
                                                            "previous_before": prev_t, "previous_after": totals_of(prev) if prev is not None else None})
    if len(parsed) == 2 and parsed["text"] and parsed["markdown"] and prev_t is not None:
        # the two formats must annotate identically for languages present in both reports and for the totals
        (rt, tt), (rm, tm) = parsed["text"], parsed["markdown"]
        for lang in rt:
            if lang in prev_t and rt[lang] != rm.get(lang):
                ctx.violation("formats_disagree", case, {"language": lang, "text": rt[lang], "markdown": rm.get(lang)})
        if tt is not None and tm is not None and tt != tm:
            ctx.violation("formats_disagree", case, {"totals_text": tt, "totals_markdown": tm})
    if prev_t is not None and (cur_t != prev_t):
        ctx.distinct([cur_t, prev_t])
        if grand(cur_t) == grand(prev_t):
            ctx.count("cases.equal_totals_but_languages_differ")


# ------------------------------------------------------------------------------------------------
FLINE = re.compile(r"^(?P<path>.+?):(?P<line>\d+):(?P<col>\d+): (?P<len>\d+) (?P<sym>\S) (?P<name>.*)$")


def expected_findings(report):
    units = []
    for path, e in report.codebase.files.items():
        for m in e.measurements():
            if m.value > 30:
                units.append((m.value, path, m.unit_name, m.start.line))
    return units


def check_findings(ctx, case, fmt, text, report, full, repository):
    ctx.count("monitor.findings_parsed")
    units = expected_findings(report)
    n = len(units)
    got = []
    more = None
    for ln in text.split("\n"):
        s = ln.strip()
        m = re.search(r"(\d+) more rows", s)
        if m:
            more = int(m.group(1))
            continue
        if fmt == "text":
            mm = FLINE.match(s)
            if mm:
                got.append((int(mm.group("len")), mm.group("path"), mm.group("name")))
        else:
            cells = [c.strip() for c in s.strip("|").split("|")]
            if repository:
                if len(cells) == 3 and cells[1].isdigit():
                    name = re.search(r"\[(.*?)\]\(", cells[0])
                    got.append((int(cells[1]), cells[2], name.group(1) if name else None))
            elif len(cells) == 5 and cells[3].isdigit():
                got.append((int(cells[3]), cells[0], cells[4].split(" ", 1)[1] if " " in cells[4] else ""))
    detail = {"format": fmt, "full": full, "n_findings": n, "text": clip(text, 400)}
    shown = n if full or n <= 10 else 10
    if len(got) != shown:
        ctx.violation("findings_row_count", case, {"expected_rows": shown, "observed_rows": len(got), **detail})
        return
    lens = [g[0] for g in got]
    if lens != sorted(lens, reverse=True):
        ctx.violation("findings_not_longest_first", case, {"lengths": lens, **detail})
    all_sorted = sorted((u[0] for u in units), reverse=True)
    if lens != all_sorted[:shown]:
        ctx.violation("findings_wrong_functions", case, {"expected_lengths": all_sorted[:shown], "observed": lens, **detail})
    # every shown row is a real finding (length, path, name)
    pool = {}
    for v, path, name, _ in units:
        pool[(v, path, name)] = pool.get((v, path, name), 0) + 1
    for g in got:
        if pool.get(g, 0) <= 0:
            ctx.violation("findings_row_not_a_finding", case, {"row": list(g), **detail})
            break
        pool[g] -= 1
    exp_more = None if full or n <= 10 else n - 10
    if more != exp_more:
        ctx.violation("findings_more_rows", case, {"expected": exp_more, "observed": more, **detail})
    if n > 10:
        ctx.distinct(["findings", sorted(all_sorted), full, fmt, repository])


def render_findings(ctx, case, report, full, repository):
    from codelimit.common.report import format_markdown, format_text

    for fmt in ("text", "markdown"):
        con = console()
        ctx.eval()
        try:
            if fmt == "text":
                format_text.print_findings(con, report, full)
            else:
                format_markdown.print_findings(report, con, full)
        except Exception as e:
            ctx.violation("render_exception", case, {"format": fmt, "error": f"{type(e).__name__}: {e}", "tb": short_tb(5)})
            continue
        check_findings(ctx, case, fmt, con.export_text(), report, full, repository)


def findings_spec(rng, n_findings):
    """a codebase with exactly n_findings functions longer than 30 lines, names without spaces or '['"""
    s = {"root": "/root/p", "entries": []}
    lens = [rng.choice([31, 32, 45, 60, 61, 62, 75, 120, rng.randint(31, 300)]) for _ in range(n_findings)]
    lens += [rng.choice([1, 15, 16, 29, 30]) for _ in range(rng.randint(0, 8))]
    rng.shuffle(lens)
    k = rng.randint(1, 5)
    for i in range(k):
        chunk = lens[i::k]
        lang = rng.choice(LANGS)
        ms, line = [], 1
        for j, v in enumerate(chunk):
            ms.append([f"fn{i}_{j}", [line, 1], [line + v, 2], v])
            line += v + 1
        loc = sum(chunk) if rng.random() < 0.8 else rng.choice([0, 1, 20, 30, 31, sum(chunk) + 7])
        s["entries"].append({"path": f"d{i % 2}/f{i}{G.LANG_EXT[lang]}", "checksum": "%032x" % rng.getrandbits(128), "language": lang,
                             "loc": loc, "measurements": ms})
    return s


# ------------------------------------------------------------------------------------------------
def command_case(ctx, rng, cur_spec, prev_spec, cli=False):
    """report_command / findings_command on reports written to disk by the real writer"""
    import typer
    from codelimit.commands.findings import findings_command
    from codelimit.commands.report import report_command
    from codelimit.common.report.ReportFormat import ReportFormat
    from codelimit.common.report.ReportWriter import ReportWriter

    root = os.path.realpath(tempfile.mkdtemp(prefix="vf-c18-"))
    try:
        cur = make_report(cur_spec)
        prev = make_report(prev_spec) if prev_spec else None
        os.makedirs(os.path.join(root, ".codelimit_cache"))
        Path(root, ".codelimit_cache", "codelimit.json").write_text(ReportWriter(cur).to_json())
        diff_path = None
        if prev is not None:
            diff_path = Path(root, "previous.json")
            diff_path.write_text(ReportWriter(prev).to_json())
        case = {"current": cur_spec, "previous": prev_spec, "command": True}
        old_cols = os.environ.get("COLUMNS")
        os.environ["COLUMNS"] = "400"
        try:
            for fmt in (ReportFormat.text, ReportFormat.markdown):
                buf = io.StringIO()
                ctx.eval()
                try:
                    with contextlib.redirect_stdout(buf):
                        report_command(Path(root), fmt, diff_path)
                    ctx.count("monitor.command_runs")
                except typer.Exit as e:
                    ctx.violation("report_command_exit", case, {"format": fmt.value, "exit": e.exit_code, "output": buf.getvalue()[-200:]})
                    continue
                except Exception as e:
                    ctx.violation("command_exception", case, {"format": fmt.value, "error": f"{type(e).__name__}: {e}", "tb": short_tb(5)})
                    continue
                out = buf.getvalue()
                head = out.split("Summary")[0]
                check_overview(ctx, case, fmt.value + "(report_command)", head, totals_of(cur), totals_of(prev) if prev else None)
                for full in (False, True):
                    buf = io.StringIO()
                    ctx.eval()
                    try:
                        with contextlib.redirect_stdout(buf):
                            findings_command(Path(root), full, fmt)
                        ctx.count("monitor.command_runs")
                    except Exception as e:
                        ctx.violation("command_exception", case, {"format": fmt.value, "error": f"{type(e).__name__}: {e}", "tb": short_tb(5)})
                        continue
                    check_findings(ctx, case, fmt.value, buf.getvalue(), cur, full, False)
            # the same two commands through the real CLI (positional arguments only, DESIGN section 2)
            if cli:
                import subprocess
                from vf import REPO
                env = dict(os.environ, PYTHONPATH=REPO, COLUMNS="400", LC_ALL="C.UTF-8")
                for args in (["report", root], ["findings", root]):
                    p = subprocess.run(["/venv/bin/python", "-m", "codelimit"] + args, cwd=root, env=env, stdout=subprocess.PIPE,
                                       stderr=subprocess.PIPE, timeout=300)
                    ctx.eval()
                    ctx.count("monitor.cli_runs")
                    out = p.stdout.decode("utf-8", "replace")
                    if p.returncode != 0:
                        ctx.violation("cli_failed", dict(case, cli=args[0]), {"rc": p.returncode, "stderr": p.stderr.decode("utf-8", "replace")[-300:]})
                    elif args[0] == "report":
                        check_overview(ctx, dict(case, cli="report"), "text(cli report)", out.split("Summary")[0], totals_of(cur), None)
                    else:
                        # the option parser of this image hands full='False' (a truthy string) to the command, so the CLI may run in
                        # either mode; the listing is judged in the mode it was evidently produced in
                        n_rows = sum(1 for ln in out.split("\n") if FLINE.match(ln.strip()))
                        check_findings(ctx, dict(case, cli="findings"), "text", out, cur, n_rows > 10, False)
        finally:
            if old_cols is None:
                os.environ.pop("COLUMNS", None)
            else:
                os.environ["COLUMNS"] = old_cols
    finally:
        shutil.rmtree(root, ignore_errors=True)


def run(shard, ctx):
    rng = rng_for(shard["seed"], "c18", shard["part"])
    for i in range(shard["pairs"] // shard["parts"]):
        cur_spec = spec(rng)
        prev_spec = derive_previous(rng, cur_spec) if rng.random() < 0.8 else None
        case = {"current": cur_spec, "previous": prev_spec}
        try:
            cur = make_report(cur_spec)
            prev = make_report(prev_spec) if prev_spec is not None else None
        except Exception as e:
            ctx.inconclusive.append(f"harness: {type(e).__name__}: {e}")
            continue
        render_overviews(ctx, case, cur, prev)
        ctx.count("cases.pairs_with_previous" if prev is not None else "cases.without_previous")
        if i == 0 and prev is not None:
            ctx.sample({"current_totals": totals_of(cur), "previous_totals": totals_of(prev)})
    for i in range(shard["findings"] // shard["parts"]):
        n = rng.choice(list(range(0, 26)) + [9, 10, 11, 10, 11])
        s = findings_spec(rng, n)
        repository = rng.random() < 0.4
        rep = make_report(s, repository)
        for full in (False, True):
            render_findings(ctx, {"findings_spec": s, "full": full, "repository": repository}, rep, full, repository)
        ctx.count("cases.findings")
    for i in range(shard["commands"]):
        cur_spec = findings_spec(rng, rng.choice([0, 3, 10, 11, 17]))
        prev_spec = derive_previous(rng, cur_spec) if rng.random() < 0.7 else None
        command_case(ctx, rng, cur_spec, prev_spec, cli=(i == 0))


def replay(case, ctx):
    rng = rng_for(0, "c18r")
    if "findings_spec" in case:
        rep = make_report(case["findings_spec"], case.get("repository", False))
        render_findings(ctx, case, rep, case.get("full", False), case.get("repository", False))
    elif case.get("command"):
        command_case(ctx, rng, case["current"], case.get("previous"))
    else:
        cur = make_report(case["current"])
        prev = make_report(case["previous"]) if case.get("previous") is not None else None
        render_overviews(ctx, case, cur, prev)


LEVEL_TEXT = ("What the real renderers print is parsed and compared with figures recomputed from the reports: thousands of "
              "(current, previous) pairs with languages added/removed/equal, findings counts all around the 10-row cut-off, both "
              "formats, with and without repository, and the report/findings commands on documents written to disk. Exploration; the "
              "right level because the faults are wrong operands in presentation code that any differing pair exposes.")
LEVEL_NOTE = "Trusted: the regular-expression parse of table rows on a 400-column console under LC_ALL=C.UTF-8."
