"""C11 - exactly the non-hidden, non-excluded files of supported languages are analysed.

Monitor shape: reference-model monitor + audit hooks. An independent selection model (vf/model/select.py) says which
files of a generated tree must contribute; the real scan_path result (keys, language, checksum) is compared with it,
a wrapper around Scanner._analyze_file records which files were analysed, a sys.addaudithook records which files
were opened at all, and a metamorphic step adds non-qualifying files and demands an unchanged result.
Exclusions are delivered through every real channel: Configuration.exclude, .codelimit.yml + Configuration.load,
__main__.scan(exclude=...), the root .gitignore, and the CLI as a subprocess.
"""
from __future__ import annotations

import contextlib
import hashlib
import io
import json
import os
import shutil
import subprocess
import sys
import tempfile
from pathlib import Path

from vf import REPO
from vf.common import Unpatch, rng_for, short_tb
from vf.gen import trees as TG
from vf.model import select as S

ID = "C11"
LEVEL = "exploration"
TECHNIQUE = ("reference selection model vs the real scan_path on generated trees; _analyze_file wrapper and sys.addaudithook('open') "
             "record what was analysed/read; metamorphic addition of non-qualifying files; exclusions via Configuration, "
             ".codelimit.yml, __main__.scan, .gitignore and the CLI subprocess; root given absolute, relative and with '..'")
RULE = ("one case = (directory tree over hidden / built-in-excluded / ordinary names with supported, unsupported, extension-less and "
        "hidden file names, exclusion list from the five pattern classes, delivery channel, way of giving the root); "
        "non-trivial = the tree has at least one qualifying and one non-qualifying file; distinct = distinct (tree, exclusions, channel, root form)")
ASSUMPTIONS = ["Pygments' file-name to lexer mapping is the trusted base for 'maps to a supported language'",
               "exclusion patterns are drawn from five unambiguous gitignore classes (bare name, dir/, *.ext, anchored a/b, a/*) "
               "whose semantics were taken from the gitignore manual, not from pathspec"]
BOUNDS = {"quick": dict(n=32, trees=3200, cli=1), "thorough": dict(n=64, trees=40000, cli=5)}
MINIMUM = {"quick": {"monitor.scan_path_compared": 3000, "monitor.files_judged": 25000, "monitor.open_audit_events": 10000, "monitor.cli_scans": 20, "monitor.cached_rescans_compared": 800},
           "thorough": {"monitor.scan_path_compared": 30000, "monitor.files_judged": 300000, "monitor.open_audit_events": 50000, "monitor.cli_scans": 200}}
PY = "/venv/bin/python"
_AUDIT = {"on": False, "opened": []}


def _audit(event, args):
    if _AUDIT["on"] and event == "open" and args and isinstance(args[0], (str, bytes, os.PathLike)):
        _AUDIT["opened"].append(os.fspath(args[0]) if not isinstance(args[0], bytes) else args[0].decode("utf-8", "replace"))


_INSTALLED = []


def install_audit():
    if not _INSTALLED:
        sys.addaudithook(_audit)
        _INSTALLED.append(True)


def shards(tier, seed):
    b = BOUNDS[tier]
    return [{"part": i, "parts": b["n"], **b} for i in range(b["n"])]


def expected_files(files, exclusions):
    out = {}
    for rel, data in files.items():
        lang = S.qualifies(rel, exclusions)
        if lang:
            out[rel] = (lang, hashlib.md5(data).hexdigest())
    return out


def run_scan(root_arg, cwd, channel, exclusions, real_root):
    """returns (files {rel: (language, checksum)}, analysed rel paths, opened paths)"""
    from codelimit.common import Scanner
    from codelimit.common.Configuration import Configuration

    analysed = []

    def wrap(f):
        def w(path, rel_path, checksum, lexer):
            analysed.append(rel_path)
            return f(path, rel_path, checksum, lexer)
        return w

    Configuration.exclude = []
    Configuration.verbose = False
    Configuration.repository = None
    old = os.getcwd()
    os.chdir(cwd)
    try:
        with Unpatch(Scanner, "_analyze_file", wrap):
            _AUDIT["opened"] = []
            if channel == "configuration":
                Configuration.exclude = list(exclusions)
            elif channel == "config_file":
                Configuration.load(Path(root_arg))
            # "gitignore": nothing to do, the file is in the tree
            _AUDIT["on"] = True
            try:
                if channel == "main_scan":
                    import codelimit.__main__ as M

                    buf = io.StringIO()
                    with contextlib.redirect_stdout(buf), contextlib.redirect_stderr(buf):
                        M.scan(path=Path(root_arg), exclude=list(exclusions), verbose=False)
                    doc = json.loads(open(os.path.join(real_root, ".codelimit_cache", "codelimit.json")).read())
                    files = {k: (v["language"], v["checksum"]) for k, v in doc["codebase"]["files"].items()}
                else:
                    cb = Scanner.scan_path(Path(root_arg))
                    files = {k: (e.language, e.checksum()) for k, e in cb.files.items()}
            finally:
                _AUDIT["on"] = False
            opened = list(_AUDIT["opened"])
    finally:
        os.chdir(old)
        Configuration.exclude = []
    return files, analysed, opened


def one_tree(ctx, rng, seed):
    files = TG.random_tree(rng)
    exclusions = TG.random_exclusions(rng, files)
    channel = rng.choice(["configuration", "config_file", "gitignore", "main_scan", "configuration", "gitignore"])
    root_form = rng.choice(["absolute", "relative", "dotdot", "dot"])
    base = os.path.realpath(tempfile.mkdtemp(prefix="vf-c11-"))
    try:
        real_root = os.path.join(base, "proj")
        os.makedirs(real_root)
        TG.materialise(real_root, files)
        if channel in ("config_file",):
            with open(os.path.join(real_root, ".codelimit.yml"), "w") as f:
                f.write("exclude:\n" + "".join(f"  - {json.dumps(p)}\n" for p in exclusions) if exclusions else "verbose: false\n")
        if channel == "gitignore":
            with open(os.path.join(real_root, ".gitignore"), "w") as f:
                f.write("\n".join(exclusions) + ("\n" if exclusions else ""))
        if root_form == "absolute":
            root_arg, cwd = real_root, base
        elif root_form == "relative":
            root_arg, cwd = "proj", base
        elif root_form == "dotdot":
            os.makedirs(os.path.join(base, "zz"), exist_ok=True)
            root_arg, cwd = os.path.join("zz", "..", "proj"), base
        else:
            root_arg, cwd = ".", real_root
        case = {"files": {k: v.decode("latin-1") for k, v in files.items()}, "exclusions": exclusions, "channel": channel, "root_form": root_form}
        exp = expected_files(files, exclusions)
        ctx.eval()
        try:
            got, analysed, opened = run_scan(root_arg, cwd, channel, exclusions, real_root)
        except Exception as e:
            ctx.violation("scan_exception", case, {"error": f"{type(e).__name__}: {e}", "tb": short_tb(6)})
            return
        ctx.count("monitor.scan_path_compared")
        ctx.count("monitor.files_judged", len(files))
        ctx.count("channel." + channel)
        ctx.count("root_form." + root_form)
        if exp and len(exp) < len(files):
            ctx.distinct([sorted(files), exclusions, channel, root_form])
        if got != exp:
            missing = sorted(set(exp) - set(got))
            extra = sorted(set(got) - set(exp))
            wrong = {k: [exp[k], got[k]] for k in set(exp) & set(got) if exp[k] != got[k]}
            ctx.violation("selection", case, {"qualifying_but_not_reported": missing[:8], "reported_but_not_qualifying": extra[:8],
                                              "wrong_language_or_checksum": dict(list(wrong.items())[:4]), "exclusions": exclusions,
                                              "channel": channel, "root_form": root_form})
            return
        if sorted(analysed) != sorted(exp):
            ctx.violation("analysed_set", case, {"analysed": sorted(analysed)[:10], "qualifying": sorted(exp)[:10]})
        # files opened below the root: only qualifying files and the two configuration files
        allowed = {os.path.join(real_root, *k.split("/")) for k in exp} | {os.path.join(real_root, ".gitignore"), os.path.join(real_root, ".codelimit.yml")}
        seen_under_root = 0
        for o in opened:
            ap = os.path.realpath(o if os.path.isabs(o) else os.path.join(cwd, o))
            if ap.startswith(real_root + os.sep) and not ap.startswith(os.path.join(real_root, ".codelimit_cache")):
                seen_under_root += 1
                if ap not in allowed:
                    ctx.violation("non_qualifying_file_was_read", case, {"path": os.path.relpath(ap, real_root), "exclusions": exclusions})
                    break
        ctx.count("monitor.open_audit_events", seen_under_root)
        # a cache left by an EARLIER state of the tree must not influence which files contribute, nor their language: in the earlier
        # state some files had the twin extension of another language (app.js <-> app.ts, util.c <-> util.cpp, x.h <-> x.hpp) with
        # the same bytes, some were elsewhere, some had other content
        if channel in ("configuration", "gitignore") and exp:
            cached_rescan(ctx, rng, files, exclusions, channel, root_arg, cwd, real_root, exp, case)
        # metamorphic: adding non-qualifying files must not change anything
        extra = {}
        for i in range(rng.randint(1, 4)):
            k = rng.random()
            if k < 0.3:
                extra[f".hid{i}/x{i}.py"] = b"def h():\n    pass\n"
            elif k < 0.55:
                extra[f"{rng.choice(TG.BUILTIN_EXCLUDED)}/deep/e{i}.js"] = b"function e() {\n}\n"
            elif k < 0.8:
                extra[f"src/new{i}{rng.choice(['.md', '.txt', '.rb', ''])}"] = b"def not_code():\n    pass\n"
            else:
                extra[f"lib/.dot{i}.c"] = b"int d() {\n}\n"
        def collides(k):  # a new path must not need a directory where the tree has a file, nor be a directory of the tree
            parts = k.split("/")
            return any("/".join(parts[:i]) in files for i in range(1, len(parts) + 1)) or any(f.startswith(k + "/") for f in files)

        extra = {k: v for k, v in extra.items() if not collides(k) and S.qualifies(k, exclusions) is None}
        if extra and channel != "main_scan":
            TG.materialise(real_root, extra)
            try:
                got2, analysed2, _ = run_scan(root_arg, cwd, channel, exclusions, real_root)
                ctx.count("monitor.metamorphic_additions")
                if got2 != got:
                    ctx.violation("non_qualifying_files_changed_the_result", dict(case, extra=sorted(extra)),
                                  {"added": sorted(extra), "new_entries": sorted(set(got2) - set(got))[:6], "lost": sorted(set(got) - set(got2))[:6]})
            except Exception as e:
                ctx.violation("scan_exception", dict(case, extra=sorted(extra)), {"error": f"{type(e).__name__}: {e}"})
    finally:
        shutil.rmtree(base, ignore_errors=True)


def channel_equivalence(ctx, rng):
    """Metamorphic: one exclusion list, delivered through Configuration.exclude, .codelimit.yml and the root .gitignore, must select
    the same files. No reference semantics is needed, so the list may use any gitignore syntax (negation, **, anchors, classes)."""
    from vf.props.c12 import wild_patterns

    files = TG.random_tree(rng)
    exclusions = TG.random_exclusions(rng, files) + wild_patterns(rng, files)
    base = os.path.realpath(tempfile.mkdtemp(prefix="vf-c11-eq-"))
    try:
        results = {}
        for channel in ("configuration", "config_file", "gitignore", "main_scan"):
            root = os.path.join(base, channel, "proj")
            os.makedirs(root)
            TG.materialise(root, files)
            if channel == "config_file":
                with open(os.path.join(root, ".codelimit.yml"), "w") as f:
                    f.write("exclude:\n" + "".join(f"  - {json.dumps(p)}\n" for p in exclusions))
            if channel == "gitignore":
                with open(os.path.join(root, ".gitignore"), "w") as f:
                    f.write("\n".join(exclusions) + "\n")
            ctx.eval()
            try:
                got, _, _ = run_scan(root, os.path.dirname(root), channel, exclusions, root)
                results[channel] = got
            except Exception as e:
                ctx.violation("scan_exception", {"files": {k: v.decode("latin-1") for k, v in files.items()}, "exclusions": exclusions,
                                                 "channel": channel, "equivalence": True}, {"error": f"{type(e).__name__}: {e}", "tb": short_tb(5)})
                return
        ctx.count("monitor.channel_equivalence_checks")
        ref = results["configuration"]
        for channel, got in results.items():
            if got != ref:
                ctx.violation("channels_disagree", {"files": {k: v.decode("latin-1") for k, v in files.items()}, "exclusions": exclusions,
                                                    "equivalence": True},
                              {"exclusions": exclusions, "channel": channel, "only_via_Configuration": sorted(set(ref) - set(got))[:6],
                               f"only_via_{channel}": sorted(set(got) - set(ref))[:6]})
                break
        ctx.distinct(["eq", sorted(files), exclusions])
    finally:
        shutil.rmtree(base, ignore_errors=True)


TWIN_EXT = {".js": ".ts", ".ts": ".js", ".c": ".cpp", ".cpp": ".c", ".h": ".hpp", ".hpp": ".h", ".cc": ".c", ".mjs": ".ts", ".py": ".pyw", ".cs": ".java", ".java": ".cs"}


def cached_rescan(ctx, rng, files, exclusions, channel, root_arg, cwd, real_root, exp, case):
    from codelimit.common import Scanner
    from codelimit.common.Configuration import Configuration
    from codelimit.common.report.Report import Report

    old = os.path.realpath(tempfile.mkdtemp(prefix="vf-c11-old-"))
    try:
        earlier = {}
        for rel, data in files.items():
            base, ext = os.path.splitext(rel)
            k = rng.random()
            if ext in TWIN_EXT and k < 0.5:
                earlier[base + TWIN_EXT[ext]] = data            # same bytes, name of the other language
            elif k < 0.6:
                earlier["moved_" + rel.replace("/", "_")] = data  # same bytes, elsewhere
            elif k < 0.7:
                earlier[rel] = data + b"\n"                     # same path, other content
            else:
                earlier[rel] = data
        earlier = {k: v for k, v in earlier.items() if not any(o != k and (o.startswith(k + "/") or k.startswith(o + "/")) for o in earlier)}
        TG.materialise(old, earlier)
        Configuration.exclude = list(exclusions) if channel == "configuration" else []
        if channel == "gitignore":
            with open(os.path.join(old, ".gitignore"), "w") as f:
                f.write("\n".join(exclusions) + ("\n" if exclusions else ""))
        cb_old = Scanner.scan_path(Path(old))
        cb_old.aggregate()
        cached = Report(cb_old)
        prev = os.getcwd()
        os.chdir(cwd)
        try:
            Configuration.exclude = list(exclusions) if channel == "configuration" else []
            cb = Scanner.scan_path(Path(root_arg), cached)
        finally:
            os.chdir(prev)
            Configuration.exclude = []
        ctx.eval()
        ctx.count("monitor.cached_rescans_compared")
        got = {k: (e.language, e.checksum()) for k, e in cb.files.items()}
        if got != exp:
            wrong = {k: [exp.get(k), got.get(k)] for k in set(exp) | set(got) if exp.get(k) != got.get(k)}
            ctx.violation("selection_with_cache", dict(case, cached=True),
                          {"differences (expected, observed)": dict(list(wrong.items())[:5]), "earlier_tree": sorted(earlier)[:12]})
    except Exception as e:
        ctx.violation("scan_exception", dict(case, cached=True), {"error": f"{type(e).__name__}: {e}", "tb": short_tb(5)})
    finally:
        shutil.rmtree(old, ignore_errors=True)


def cli_case(ctx, rng):
    files = TG.random_tree(rng)
    exclusions = TG.random_exclusions(rng, files)
    channel = rng.choice(["config_file", "gitignore"])
    base = os.path.realpath(tempfile.mkdtemp(prefix="vf-c11-cli-"))
    try:
        real_root = os.path.join(base, "proj")
        os.makedirs(real_root)
        TG.materialise(real_root, files)
        if channel == "config_file":
            with open(os.path.join(real_root, ".codelimit.yml"), "w") as f:
                f.write("exclude:\n" + "".join(f"  - {json.dumps(p)}\n" for p in exclusions) if exclusions else "verbose: false\n")
        else:
            with open(os.path.join(real_root, ".gitignore"), "w") as f:
                f.write("\n".join(exclusions) + "\n")
        form = rng.choice(["dot", "relative", "absolute"])
        args, cwd = {"dot": (["scan", "."], real_root), "relative": (["scan", "proj"], base), "absolute": (["scan", real_root], base)}[form]
        env = dict(os.environ, PYTHONPATH=REPO, COLUMNS="200")
        p = subprocess.run([PY, "-m", "codelimit"] + args, cwd=cwd, env=env, stdout=subprocess.PIPE, stderr=subprocess.PIPE, timeout=300)
        ctx.eval()
        ctx.count("monitor.cli_scans")
        case = {"files": {k: v.decode("latin-1") for k, v in files.items()}, "exclusions": exclusions, "channel": channel, "cli": form}
        if p.returncode != 0:
            ctx.violation("cli_scan_failed", case, {"rc": p.returncode, "stderr": p.stderr.decode("utf-8", "replace")[-400:]})
            return
        doc = json.loads(open(os.path.join(real_root, ".codelimit_cache", "codelimit.json")).read())
        got = {k: (v["language"], v["checksum"]) for k, v in doc["codebase"]["files"].items()}
        exp = expected_files(files, exclusions)
        if got != exp:
            ctx.violation("cli_selection", case, {"qualifying_but_not_reported": sorted(set(exp) - set(got))[:8],
                                                  "reported_but_not_qualifying": sorted(set(got) - set(exp))[:8], "exclusions": exclusions})
    finally:
        shutil.rmtree(base, ignore_errors=True)


def run(shard, ctx):
    install_audit()
    rng = rng_for(shard["seed"], "c11", shard["part"])
    for i in range(shard["trees"] // shard["parts"]):
        one_tree(ctx, rng, shard["seed"])
    for i in range(max(1, shard["trees"] // shard["parts"] // 6)):
        channel_equivalence(ctx, rng)
    for i in range(shard["cli"]):
        cli_case(ctx, rng)
    files = TG.random_tree(rng)
    ex = TG.random_exclusions(rng, files)
    ctx.sample({"tree": sorted(files)[:12], "exclusions": ex, "qualifying": sorted(expected_files(files, ex))[:8]})


def replay(case, ctx):
    """re-run the same tree/exclusions through every channel and root form"""
    install_audit()
    files = {k: v.encode("latin-1") for k, v in case["files"].items()}
    exclusions = case["exclusions"]
    if case.get("equivalence"):
        import vf.props.c12 as c12mod
        o1, o2, o3 = TG.random_tree, TG.random_exclusions, c12mod.wild_patterns
        TG.random_tree = lambda rng, *a, **k: dict(files)
        TG.random_exclusions = lambda rng, f: list(exclusions)
        c12mod.wild_patterns = lambda rng, f: []
        try:
            channel_equivalence(ctx, rng_for(0, "c11-replay"))
        finally:
            TG.random_tree, TG.random_exclusions, c12mod.wild_patterns = o1, o2, o3
        return

    class Fixed:
        def __init__(self):
            self.calls = 0

    # drive one_tree's logic with fixed choices by monkeypatching the generator functions
    orig_tree, orig_ex = TG.random_tree, TG.random_exclusions
    TG.random_tree = lambda rng, *a, **k: dict(files)
    TG.random_exclusions = lambda rng, f: list(exclusions)
    try:
        for s in range(12):
            one_tree(ctx, rng_for(s, "c11-replay"), 0)
    finally:
        TG.random_tree, TG.random_exclusions = orig_tree, orig_ex


LEVEL_TEXT = ("Hundreds of generated trees per run are scanned by the real scan_path (and by __main__.scan and the CLI) with exclusions "
              "delivered through every channel and the root given in every form; the reported set, languages and checksums are "
              "compared with an independent selection model, the analysed and the opened files are recorded by hooks, and "
              "non-qualifying additions must change nothing. Exploration; right level for a selection predicate whose faults are "
              "pattern/prefix/pruning mistakes that random trees over an adversarial name pool expose.")
LEVEL_NOTE = "Trusted: Pygments' file-name mapping; the 25-line pattern matcher for the five classes; CPython audit events for open()."
