"""C04 - comments, blank lines and whitespace never change what is measured.

Monitor shape: metamorphic monitor over pairs of executions of the real scan_file: X and X' = X with token-safe
insertions (blank / whitespace-only / comment-only lines, trailing comments, trailing whitespace), and the reverse
direction (all comment-only and blank lines removed). Expected: same functions, names, order, lengths and columns;
every line number shifted by exactly the number of lines inserted above it.
"""
from __future__ import annotations

from vf import pipeline
from vf.common import clip, rng_for, short_tb
from vf.gen import canon, hostile

ID = "C04"
LEVEL = "exploration"
TECHNIQUE = ("metamorphic monitor on the real scan_file: original vs comment/blank/whitespace-transformed text (insertion "
             "and removal), line-shift relation on every measurement; token-stream comparison separates codelimit's "
             "handling from lexer re-tokenisation")
RULE = ("one case = (file, set of 1-8 simultaneous token-safe insertions) or (file, all comment-only/blank lines removed); files: "
        "vendored real-world corpus (7 languages) and generated canonical programs; insertion kinds: blank line, "
        "whitespace-only line, comment-only line in each comment style of the language (incl. multi-line block comments), "
        "trailing comment, trailing whitespace; a case is judged only if the inserted text was lexed as comment/whitespace; "
        "non-trivial = the file has at least one function and at least one insertion lies inside a function's span; "
        "distinct = distinct (file, transformed text)")
ASSUMPTIONS = ["Pygments decides what is a comment: an insertion that the lexer does not tokenise as Comment/whitespace is "
               "not a comment, the case is counted as invalid and not judged",
               "if the relation fails and the code-token streams of X and X' differ, the lexer re-tokenised code around the "
               "insertion: counted as lexer_retokenised and reported, not judged (precondition 'between the tokens' fails)"]
BOUNDS = {"quick": dict(n=28, sets_per_file=10, canon=16, single_points_files=0, single_points_cap=0),
          "thorough": dict(n=112, sets_per_file=100, canon=300, single_points_files=4, single_points_cap=250)}
MINIMUM = {"quick": {"monitor.relation_checked": 1200, "cases.insertion_inside_function": 600, "monitor.removal_relation_checked": 100},
           "thorough": {"monitor.relation_checked": 25000, "cases.insertion_inside_function": 12000, "monitor.removal_relation_checked": 300}}
WORDS = ["note", "todo: later", "x = 1; {", "if (a) { b(); }", "def f(): pass", "function g() {", "}", "see nocl", "((", "\"", "'",
         # the marker word later in the comment, also right after something that looks like another comment opener
         "noqa: C901  # nocl was dropped", "TODO split; nocl is no option", "tracked in #nocl-42", "see // nocl", "was /* nocl", "x ;nocl",
         "NOT NOCL", "no-nocl", "a nocl b"]


def shards(tier, seed):
    b = BOUNDS[tier]
    per = b["n"] // len(canon.LANGS)
    return [{"language": lang, "part": i, "parts": per, **b} for lang in canon.LANGS for i in range(per)]


def comment_lines(language, rng, indent):
    """a comment-only insertion: list of physical lines"""
    w = rng.choice(WORDS)
    pad = " " * indent
    if language == "Python":
        return [f"{pad}# {w}"]
    k = rng.random()
    if k < 0.5:
        return [f"{pad}// {w}"]
    if k < 0.75:
        return [f"{pad}/* {w} */"]
    return [f"{pad}/*", f"{pad} * {w}", f"{pad} */"] if rng.random() < 0.7 else [f"{pad}/* {w}", f"{pad}   {rng.choice(WORDS)} */"]


def trailing_comment(language, rng):
    w = rng.choice(WORDS)
    if language == "Python":
        return f"  # {w}"
    return f" // {w}" if rng.random() < 0.7 else f" /* {w} */"


class FileInfo:
    def __init__(self, language, text):
        from pygments.token import Comment, String, Text

        self.language = language
        self.text = text
        self.lines = text.split("\n")
        raw = pipeline.raw_tokens(language, text)
        # offsets of newline characters that lie strictly inside a non-whitespace token, or between two string fragments
        self.unsafe_newlines = set()
        prev_kind = None
        pending_nl = []
        for off, tt, val in raw:
            is_ws = tt in Text and val.strip() == ""
            if not is_ws:
                for i, c in enumerate(val):
                    if c == "\n":
                        self.unsafe_newlines.add(off + i)
                if tt in String and prev_kind == "string":
                    self.unsafe_newlines.update(pending_nl)
                prev_kind = "string" if tt in String else "other"
                pending_nl = []
            else:
                for i, c in enumerate(val):
                    if c == "\n":
                        pending_nl.append(off + i)
        self.nl_offsets = [i for i, c in enumerate(text) if c == "\n"]
        # boundary k (1-based: "before line k+1", i.e. after the newline that ends line k) is safe iff that newline is safe
        self.safe_line_ends = []
        for k, off in enumerate(self.nl_offsets):
            line = self.lines[k]
            if off in self.unsafe_newlines or line.rstrip().endswith("\\"):
                continue
            self.safe_line_ends.append(k + 1)  # line number whose end is safe
        self.base = None

    def measurements(self):
        if self.base is None:
            _, ms = pipeline.analyze(self.language, self.text)
            self.base = pipeline.measurements_as_lists(ms)
        return self.base


def code_stream(language, text):
    from pygments.token import Comment, Text

    return [(str(tt), val) for _, tt, val in pipeline.raw_tokens(language, text)
            if val != "" and not (tt in Comment) and not (tt in Text and val.strip() == "")]


def inserted_ok(language, new_text, spans):
    """every inserted character must be lexed as Comment.* or whitespace"""
    from pygments.token import Comment, Text

    kind = [None] * (len(new_text) + 1)
    for off, tt, val in pipeline.raw_tokens(language, new_text):
        for i in range(off, off + len(val)):
            kind[i] = tt
    for a, b in spans:
        for i in range(a, b):
            if new_text[i].isspace():
                continue
            if kind[i] is None or kind[i] not in Comment:
                return False
    return True


def apply_insertions(info, ins):
    """ins: list of (after_line, kind, payload) with after_line in safe_line_ends (insert new lines after that line) for
    kind 'lines' (payload = list of lines), or kind 'trail' (payload = text appended to that line).
    Returns (new_text, spans of inserted chars in new_text, shift function)."""
    by_line_new = {}
    by_line_trail = {}
    for after, kind, payload in ins:
        if kind == "lines":
            by_line_new.setdefault(after, []).extend(payload)
        else:
            by_line_trail[after] = by_line_trail.get(after, "") + payload
    out = []
    spans = []
    pos = 0
    added_before = {}  # original line number -> number of lines inserted above it
    added = 0
    for k, line in enumerate(info.lines, start=1):
        added_before[k] = added
        s = line
        if k in by_line_trail:
            spans.append((pos + len(line), pos + len(line) + len(by_line_trail[k])))
            s = line + by_line_trail[k]
        out.append(s)
        pos += len(s) + 1
        for nl in by_line_new.get(k, []):
            spans.append((pos, pos + len(nl)))
            out.append(nl)
            pos += len(nl) + 1
            added += 1
    return "\n".join(out), spans, added_before


def shifted(base, added_before):
    out = []
    for name, (sl, sc), (el, ec), val in base:
        out.append([name, [sl + added_before[sl], sc], [el + added_before[el], ec], val])
    return out


def random_insertions(info, rng, language):
    n = rng.randint(1, 8)
    ins = []
    if not info.safe_line_ends:
        return ins
    for _ in range(n):
        after = rng.choice(info.safe_line_ends)
        k = rng.random()
        nxt = info.lines[after] if after < len(info.lines) else ""
        indent = len(nxt) - len(nxt.lstrip()) if rng.random() < 0.7 else rng.choice([0, 2, 4, 8])
        if k < 0.2:
            ins.append((after, "lines", [""] * rng.randint(1, 3)))
        elif k < 0.3:
            ins.append((after, "lines", [" " * rng.randint(1, 8) + ("\t" if rng.random() < 0.3 else "")]))
        elif k < 0.36:
            # whitespace that some line-splitting conventions (str.splitlines) treat as a line break: it is still ONE physical line
            ins.append((after, "lines", [rng.choice(["\x0c", " \x0c", "\x0b", "\x0c\x0c", "\t\x0c "])]))
        elif k < 0.42:
            c = comment_lines(language, rng, indent)
            c[0] = c[0] + rng.choice([" \x0c page", " \x85 nel", " \u2028 ls", " \x0b vt", " \x1c fs", " \u2029 ps"])
            ins.append((after, "lines", c))
        elif k < 0.7:
            ins.append((after, "lines", comment_lines(language, rng, indent)))
        elif k < 0.9:
            ins.append((after, "trail", trailing_comment(language, rng)))
        elif rng.random() < 0.8:
            ins.append((after, "trail", " " * rng.randint(1, 4)))
        else:
            ins.append((after, "trail", rng.choice([" \x0c", "\t\x0b", trailing_comment(language, rng) + " \x85\u2028"])))
    return ins


def judge_pair(ctx, language, info, new_text, spans, added_before, case, cls):
    base = info.measurements()
    if not inserted_ok(language, new_text, spans):
        ctx.count("cases.invalid_insertion_not_lexed_as_comment")
        return
    ctx.eval()
    try:
        _, ms = pipeline.analyze(language, new_text)
        got = pipeline.measurements_as_lists(ms)
    except Exception as e:
        ctx.violation("exception_on_transformed", case, {"class": cls, "error": f"{type(e).__name__}: {e}", "tb": short_tb(4)})
        return
    ctx.count("monitor.relation_checked")
    exp = shifted(base, added_before)
    if base:
        ctx.count("cases.file_has_functions")
    if got == exp:
        return True
    if code_stream(language, info.text) != code_stream(language, new_text):
        ctx.count("cases.lexer_retokenised_not_judged")
        return None
    es = {repr(x) for x in exp}
    gs = {repr(x) for x in got}
    ctx.violation("relation", case, {"class": cls, "expected_not_reported": [x for x in exp if repr(x) not in gs][:5],
                                     "reported_not_expected": [x for x in got if repr(x) not in es][:5],
                                     "n_expected": len(exp), "n_reported": len(got)})
    return False


def insertion_case(ctx, language, info, ins, name, cls):
    new_text, spans, added_before = apply_insertions(info, ins)
    case = {"language": language, "text": info.text, "insertions": [[a, k, p] for a, k, p in ins]}
    base = info.measurements()
    before = ctx.evaluations
    verdict = judge_pair(ctx, language, info, new_text, spans, added_before, case, cls)
    if ctx.evaluations > before and any(sl <= a < el or (k == "trail" and sl <= a <= el) for a, k, p in ins for _, (sl, _), (el, _), _ in base):
        ctx.count("cases.insertion_inside_function")  # judged cases only
        ctx.distinct([language, new_text])
    if verdict and len(ctx.samples) < 3:
        ctx.sample({"language": language, "file": name, "insertions": [[a, k, p] for a, k, p in ins], "functions_in_file": len(base),
                    "relation": "held: same names/lengths/columns, lines shifted by the lines inserted above"})


def removal_case(ctx, language, text, name):
    """remove every blank line and every line that holds only a comment; the original is then the 'transformed' text"""
    from pygments.token import Comment, Text

    lines = text.split("\n")
    starts = [0]
    for ln in lines:
        starts.append(starts[-1] + len(ln) + 1)
    kind = [None] * (len(text) + 1)
    multiline_comment_lines = set()
    for off, tt, val in pipeline.raw_tokens(language, text):
        for i in range(off, off + len(val)):
            kind[i] = tt
    removable = []
    for k, ln in enumerate(lines, start=1):
        a, b = starts[k - 1], starts[k - 1] + len(ln)
        if all(text[i].isspace() or (kind[i] is not None and kind[i] in Comment) for i in range(a, b)):
            # the newline ending this line must not be inside a non-comment token
            nl = b
            if nl < len(text) and kind[nl] is not None and not (kind[nl] in Comment) and not (kind[nl] in Text):
                continue
            if ln.strip().lower().lstrip("#/*; ").startswith("nocl"):
                continue
            removable.append(k)
    if not removable or len(removable) == len(lines):
        return
    rem = set(removable)
    # comment tokens that span several lines must be removed entirely or not at all
    off = 0
    for o, tt, val in pipeline.raw_tokens(language, text):
        if tt in Comment and "\n" in val:
            first = text.count("\n", 0, o) + 1
            last = first + val.count("\n")
            if not all(k in rem for k in range(first, last + 1)):
                for k in range(first, last + 1):
                    rem.discard(k)
    if not rem:
        return
    kept = [ln for k, ln in enumerate(lines, start=1) if k not in rem]
    stripped = "\n".join(kept)
    info = FileInfo(language, stripped)
    # map stripped line numbers to original line numbers
    added_before = {}
    new_k = 0
    removed_so_far = 0
    for k in range(1, len(lines) + 1):
        if k in rem:
            removed_so_far += 1
        else:
            new_k += 1
            added_before[new_k] = removed_so_far
    ctx.eval()
    try:
        base = info.measurements()
        _, ms = pipeline.analyze(language, text)
        got = pipeline.measurements_as_lists(ms)
    except Exception as e:
        ctx.violation("exception_on_removal", {"language": language, "text": text, "removal": True},
                      {"error": f"{type(e).__name__}: {e}", "tb": short_tb(4)})
        return
    ctx.count("monitor.removal_relation_checked")
    ctx.count("lines.removed", len(rem))
    exp = shifted(base, added_before)
    if got == exp:
        return
    if code_stream(language, stripped) != code_stream(language, text):
        ctx.count("cases.lexer_retokenised_not_judged")
        return
    es = {repr(x) for x in exp}
    gs = {repr(x) for x in got}
    ctx.violation("removal_relation", {"language": language, "text": text, "removal": True},
                  {"file": name, "with_comments_not_matching": [x for x in got if repr(x) not in es][:5],
                   "expected_from_stripped": [x for x in exp if repr(x) not in gs][:5]})


def run(shard, ctx):
    lang = shard["language"]
    rng = rng_for(shard["seed"], "c04", lang, shard["part"])
    files = [(n, t) for n, t in hostile.corpus(lang)]
    for i in range(shard["canon"] // shard["parts"]):
        p = canon.generate(lang, f"{shard['seed']}:c04:{shard['part']}:{i}", [f for f in canon.FEATURES if f not in
                                                                            ("comments", "block_comments", "trailing_comments")])
        files.append((f"canonical{i}", p.text))
    for idx, (name, text) in enumerate(files):
        if not name.startswith("canonical") and idx % shard["parts"] != shard["part"]:
            continue
        info = FileInfo(lang, text)
        try:
            info.measurements()
        except Exception as e:
            ctx.notes.append(f"base analysis of {name} raised {type(e).__name__} (C03's concern)")
            continue
        ctx.count("files.used")
        ctx.count("safe_points.total", len(info.safe_line_ends))
        for _ in range(shard["sets_per_file"]):
            ins = random_insertions(info, rng, lang)
            if ins:
                insertion_case(ctx, lang, info, ins, name, "corpus" if not name.startswith("canonical") else "canonical")
        removal_case(ctx, lang, text, name)
        if idx < shard["single_points_files"]:
            points = info.safe_line_ends
            if len(points) > shard["single_points_cap"]:
                points = sorted(rng.sample(points, shard["single_points_cap"]))
            for after in points:
                for ins in ([(after, "lines", comment_lines(lang, rng, 0))], [(after, "trail", trailing_comment(lang, rng))],
                            [(after, "lines", [""])]):
                    ctx.count("cases.single_point")
                    insertion_case(ctx, lang, info, ins, name, "single_point")


def replay(case, ctx):
    lang = case["language"]
    if case.get("removal"):
        removal_case(ctx, lang, case["text"], "replay")
        return
    info = FileInfo(lang, case["text"])
    insertion_case(ctx, lang, info, [(a, k, p) for a, k, p in case["insertions"]], "replay", "replay")


LEVEL_TEXT = ("Pairs of executions of the real analysis (original vs transformed file) are compared under the relation the "
              "property states. Real-world files in all seven languages plus generated programs, 1-8 simultaneous insertions of "
              "every comment style, and the removal direction. Exploration by metamorphic testing at run time; right level "
              "because no expected output is needed and real files supply the lexical variety.")
LEVEL_NOTE = ("Trusted: Pygments' classification of the inserted text as comment (cases where it is not are counted, not "
              "judged); the token-safety rules (no insertion inside multi-line tokens, after a backslash, or between string fragments).")
