"""C17 - the suppression marker removes exactly the marked function.

Monitor shape: metamorphic monitor on the real scan_file: a canonical program without markers vs the same program with a
'nocl' comment appended to the name line of a chosen subset M of its non-nested, non-enclosing functions. Expected:
the marked run reports exactly the unmarked result minus M. Decoys (the word later in a comment, the marker on another
line of the function, on the '{' line of a next-line brace) must remove nothing.
"""
from __future__ import annotations

import itertools

from vf import pipeline
from vf.common import clip, rng_for, short_tb
from vf.gen import canon

ID = "C17"
LEVEL = "exploration"
TECHNIQUE = ("metamorphic monitor on the real scan_file: unmarked vs marked canonical programs (every subset of up to 4 "
             "eligible functions, all marker spellings and comment styles) plus decoy comments that must not suppress")
RULE = ("one case = (canonical program, subset M of its functions that neither enclose nor are nested in another function, "
        "marker spelling in {nocl, NOCL, NoCl} x 0-3 spaces x optional trailing text x comment style of the language) or "
        "(program, decoy placement); marked and unmarked text are both analysed by the real scan_file; a case is judged only if "
        "the appended text is lexed as a comment; non-trivial = M is non-empty and the program has other functions left; "
        "distinct = distinct marked texts")
ASSUMPTIONS = ["markers are single-line comments appended to the line of the function's name token; doubled leaders (##, /**) and "
               "words that merely start with 'nocl' are not generated (the property text does not settle them)",
               "the unmarked run is the reference (its absolute correctness is C01's property)"]
BOUNDS = {"quick": dict(n=28, programs=16, random_subsets=4), "thorough": dict(n=112, programs=900, random_subsets=30)}
MINIMUM = {"quick": {"monitor.marked_relation_checked": 1200, "monitor.decoy_relation_checked": 500},
           "thorough": {"monitor.marked_relation_checked": 60000, "monitor.decoy_relation_checked": 20000}}
FEATURES = [f for f in canon.FEATURES if f not in ("trailing_comments", "long")]


def shards(tier, seed):
    b = BOUNDS[tier]
    per = b["n"] // len(canon.LANGS)
    return [{"language": lang, "part": i, "parts": per, **b} for lang in canon.LANGS for i in range(per)]


def spellings(language, rng):
    word = rng.choice(["nocl", "NOCL", "NoCl", "nocl", "Nocl"])
    sp = " " * rng.randint(0, 3)
    tail = rng.choice(["", "", " generated code", " - legacy", ": reason {", " (see docs)"])
    if language == "Python":
        return f"#{sp}{word}{tail}"
    # an ordinary inline comment may sit on the same line, before the marker comment
    pre = rng.choice(["", "", "", "/* unused */ ", "/* see below */ /* and here */ "])
    if rng.random() < 0.65:
        return f"{pre}//{sp}{word}{tail}"
    return f"{pre}/*{sp}{word}{tail} */"


def decoy_comment(language, rng):
    body = rng.choice(["see nocl", "not nocl", "no cl", "todo nocl later", "x nocl", "disable: nocl",
                       "noqa: C901  # nocl was dropped here", "TODO split this up; nocl is not an option", "tracked in #nocl-42",
                       "see // nocl", "was /* nocl", "x ;nocl", "NOT # NOCL", "a; NoCl", "-nocl", ".nocl", "\"nocl\""])
    if language == "Python":
        return f"# {body}"
    return f"// {body}" if rng.random() < 0.7 else f"/* {body} */"


def append_to_lines(text, additions):
    """additions: {line number: text to append}"""
    lines = text.split("\n")
    spans = []
    for ln, add in additions.items():
        lines[ln - 1] = lines[ln - 1] + "  " + add
    out = "\n".join(lines)
    # spans of the added text in the new text
    pos = 0
    for i, l in enumerate(lines, start=1):
        if i in additions:
            spans.append((pos + len(l) - len(additions[i]), pos + len(l)))
        pos += len(l) + 1
    return out, spans


_CS = {}


def lexed_as_comment(language, text, spans, original=None):
    """the appended text must be lexed as a comment AND must leave the code-token stream of the file untouched
    (appending to the first line of a multi-line comment, for example, would end that comment early)"""
    from pygments.token import Comment
    from vf.props.c04 import code_stream

    if original is not None:
        key = (language, original)
        if _CS.get("key") != key:
            _CS["key"], _CS["val"] = key, code_stream(language, original)
        if _CS["val"] != code_stream(language, text):
            return False

    kind = [None] * (len(text) + 1)
    for off, tt, val in pipeline.raw_tokens(language, text):
        for i in range(off, off + len(val)):
            kind[i] = tt
    return all(text[i].isspace() or (kind[i] is not None and kind[i] in Comment) for a, b in spans for i in range(a, b))


def eligible(prog):
    """functions of depth 0 that contain no nested function; returns list of (index in truth, name line)"""
    parents = {t.parent for t in prog.truth if t.parent is not None}
    out = []
    name_lines = {}
    for f_index, t in enumerate(prog.truth):
        name_lines[f_index] = None
    # name token line: find via generator tokens
    names = {}
    for tok in prog.tokens:
        if tok.kind == "name" and tok.owner is not None and tok.owner not in names:
            names[tok.owner] = tok.line
    for i, t in enumerate(prog.truth):
        if t.depth == 0 and i not in parents:
            out.append((i, names[i]))
    return out, names


def name_lines_and_eligible(language, text, base):
    """from the unmarked result alone (works for any text, generated or real): the line of each function's name token, and the
    functions that neither enclose nor are nested in another reported function"""
    from codelimit.common.lexer_utils import lex

    tokens = [t for t in lex(pipeline.lexer_for(language), text, False) if t.is_name()]
    name_line = {}
    for i, m in enumerate(base):
        start = tuple(m[1])
        name_line[i] = next((t.location.line for t in tokens if t.value == m[0] and (t.location.line, t.location.column) >= start), None)
    elig = []
    for i, m in enumerate(base):
        s, e = tuple(m[1]), tuple(m[2])
        alone = all(j == i or tuple(o[2]) <= s or tuple(o[1]) >= e for j, o in enumerate(base))
        if alone and name_line[i] is not None:
            elig.append(i)
    return name_line, elig


PY_STUBS = ("def stub_one(): pass\n\n\nclass Proto:\n    def read(self): ...\n    def close(self): pass\n    x = 1\n\n\n"
            "def stub_two(a, b): return a\n\n")


def generic_program(ctx, language, text, rng, label, n_subsets):
    """marked vs unmarked on ANY text: the unmarked run is the reference, so no canonical structure is required (real-world
    files, Python files with body-less one-line defs that are normally not reported at all)"""
    try:
        base = analyze(language, text)
    except Exception as e:
        ctx.notes.append(f"base analysis raised {type(e).__name__} (C03's concern)")
        return
    name_line, elig = name_lines_and_eligible(language, text, base)
    by_line = {}
    for i, ln in name_line.items():
        by_line.setdefault(ln, []).append(i)
    elig = [i for i in elig if len(by_line[name_line[i]]) == 1]
    if not elig:
        return
    for _ in range(n_subsets):
        M = rng.sample(elig, rng.randint(1, min(4, len(elig))))
        additions = {name_line[i]: spellings(language, rng) for i in M}
        marked, spans = append_to_lines(text, additions)
        case = {"language": language, "text": text, "additions": {str(k): v for k, v in additions.items()}, "decoy": False, "generic": True}
        if not lexed_as_comment(language, marked, spans, text):
            ctx.count("cases.invalid_marker_not_lexed_as_comment")
            continue
        ctx.eval()
        try:
            got = analyze(language, marked)
        except Exception as e:
            ctx.violation("exception_on_marked", case, {"error": f"{type(e).__name__}: {e}"})
            continue
        ctx.count("monitor.marked_relation_checked")
        ctx.count("monitor.generic_" + label)
        exp = [m for i, m in enumerate(base) if i not in M]
        ctx.distinct([language, marked])
        if got != exp:
            es = {repr(x) for x in exp}
            gs = {repr(x) for x in got}
            ctx.violation("marked_relation", case, {"class": label, "markers": additions,
                                                    "new_or_changed": [x for x in got if repr(x) not in es][:5],
                                                    "missing": [x for x in exp if repr(x) not in gs][:5]})


def analyze(language, text):
    _, ms = pipeline.analyze(language, text)
    return pipeline.measurements_as_lists(ms)


def one_program(ctx, language, prog, rng, random_subsets):
    try:
        base = analyze(language, prog.text)
    except Exception as e:
        ctx.notes.append(f"base analysis raised {type(e).__name__} (C03's concern)")
        return
    truth = [t.as_list() for t in prog.truth]
    if base != truth:
        ctx.count("cases.unmarked_result_differs_from_ground_truth")  # informational; C01 judges it
    elig, names = eligible(prog)
    # several functions may share a name line (one-liners on one line are not generated; still be safe)
    by_line = {}
    for i, ln in names.items():
        by_line.setdefault(ln, []).append(i)
    elig = [(i, ln) for i, ln in elig if len(by_line[ln]) == 1]
    if not elig:
        return
    subsets = []
    small = elig[:6]
    for k in range(1, min(4, len(small)) + 1):
        subsets.extend(itertools.combinations(small, k))
    for _ in range(random_subsets):
        k = rng.randint(1, len(elig))
        subsets.append(tuple(rng.sample(elig, k)))
    for M in subsets:
        additions = {ln: spellings(language, rng) for _, ln in M}
        marked, spans = append_to_lines(prog.text, additions)
        case = {"language": language, "text": prog.text, "additions": {str(k): v for k, v in additions.items()}, "decoy": False}
        if not lexed_as_comment(language, marked, spans, prog.text):
            ctx.count("cases.invalid_marker_not_lexed_as_comment")
            continue
        ctx.eval()
        try:
            got = analyze(language, marked)
        except Exception as e:
            ctx.violation("exception_on_marked", case, {"error": f"{type(e).__name__}: {e}", "tb": short_tb(4)})
            continue
        ctx.count("monitor.marked_relation_checked")
        removed = {i for i, _ in M}
        # expected = unmarked result minus the marked functions, identified by their (name, start) in the unmarked result
        drop = {(truth[i][0], tuple(truth[i][1])) for i in removed}
        exp = [m for m in base if (m[0], tuple(m[1])) not in drop]
        if len(exp) != len(base) - len(removed):
            ctx.count("cases.base_lacks_a_marked_function_not_judged")
            continue
        if exp and removed:
            ctx.distinct([language, marked])
            if len(ctx.samples) < 3:
                ctx.sample({"language": language, "markers_appended_to_lines": additions, "functions_before": len(base),
                            "functions_after": len(got), "removed": sorted(truth[i][0] for i in removed)})
        if got != exp:
            es = {repr(x) for x in exp}
            gs = {repr(x) for x in got}
            ctx.violation("marked_relation", case,
                          {"markers": additions, "still_reported_or_changed": [x for x in got if repr(x) not in es][:5],
                           "missing": [x for x in exp if repr(x) not in gs][:5]})
    # decoys: must remove nothing
    lines = prog.text.split("\n")
    name_line_set = set(names.values())
    for i, ln in elig[:8]:
        t = prog.truth[i]
        candidates = []
        end_line = t.end[0]
        if end_line not in name_line_set and end_line != ln:
            candidates.append(("marker_on_last_line", end_line, spellings(language, rng)))
        if ln + 1 <= end_line and (ln + 1) not in name_line_set and lines[ln].strip():
            candidates.append(("marker_on_line_after_name", ln + 1, spellings(language, rng)))
        candidates.append(("word_later_in_comment", ln, decoy_comment(language, rng)))
        for kind, at, text_add in candidates:
            marked, spans = append_to_lines(prog.text, {at: text_add})
            case = {"language": language, "text": prog.text, "additions": {str(at): text_add}, "decoy": True}
            if not lexed_as_comment(language, marked, spans, prog.text):
                ctx.count("cases.invalid_marker_not_lexed_as_comment")
                continue
            ctx.eval()
            try:
                got = analyze(language, marked)
            except Exception as e:
                ctx.violation("exception_on_decoy", case, {"error": f"{type(e).__name__}: {e}"})
                continue
            ctx.count("monitor.decoy_relation_checked")
            ctx.count("decoys." + kind)
            if got != base:
                gs = {repr(x) for x in got}
                ctx.violation("decoy_removed_something", case,
                              {"decoy": kind, "line": at, "comment": text_add, "missing": [x for x in base if repr(x) not in gs][:5]})


def same_line_cases(ctx, language, rng, n):
    """several one-line functions share a physical line; a marker on that line must suppress every function whose name sits there
    ('omitted exactly when a marker comment sits on the line of the function's name'), and nothing else"""
    if language == "Python":
        return
    wrap = language in ("Java", "C#")
    for case_i in range(n):
        lines, names_on = [], {}
        k = 0
        for ln in range(rng.randint(2, 5)):
            cnt = rng.choice([1, 2, 2, 3])
            parts = []
            for _ in range(cnt):
                name = f"one{k}"
                k += 1
                parts.append(canon.exact_length_function(language, 1, name).strip())
                names_on.setdefault(len(lines), []).append(name)
            lines.append(("    " if wrap else "") + " ".join(parts))
            if rng.random() < 0.4:
                lines.append(("    " if wrap else "") + canon.exact_length_function(language, 3, f"multi{k}").replace("\n", "\n" + ("    " if wrap else "")).rstrip())
                k += 1
        text = ("public class Holder {\n" + "\n".join(lines) + "\n}\n") if wrap else "\n".join(lines) + "\n"
        try:
            base = analyze(language, text)
        except Exception as e:
            ctx.notes.append(f"same-line base analysis raised {type(e).__name__}")
            continue
        phys = text.split("\n")
        marked_idx = [i for i in names_on if rng.random() < 0.5] or [next(iter(names_on))]
        additions = {}
        removed_names = set()
        for i in marked_idx:
            line_no = next(j + 1 for j, l in enumerate(phys) if l.strip() == lines[i].strip())
            additions[line_no] = spellings(language, rng)
            removed_names |= set(names_on[i])
        marked, spans = append_to_lines(text, additions)
        case = {"language": language, "text": text, "additions": {str(a): b for a, b in additions.items()}, "decoy": False, "same_line": True}
        if not lexed_as_comment(language, marked, spans, text):
            ctx.count("cases.invalid_marker_not_lexed_as_comment")
            continue
        ctx.eval()
        try:
            got = analyze(language, marked)
        except Exception as e:
            ctx.violation("exception_on_marked", case, {"error": f"{type(e).__name__}: {e}"})
            continue
        ctx.count("monitor.marked_relation_checked")
        ctx.count("monitor.same_line_cases")
        exp = [m for m in base if m[0] not in removed_names]
        if len(base) - len(exp) != len(removed_names):
            ctx.count("cases.base_lacks_a_marked_function_not_judged")
            continue
        ctx.distinct([language, marked])
        if got != exp:
            ctx.violation("marked_relation", case, {"markers": additions, "functions_on_marked_lines": sorted(removed_names),
                                                    "still_reported_or_changed": [x for x in got if x not in exp][:5],
                                                    "missing": [x for x in exp if x not in got][:5]})


def run(shard, ctx):
    lang = shard["language"]
    rng = rng_for(shard["seed"], "c17", lang, shard["part"])
    for i in range(shard["programs"] // shard["parts"] + 1):
        prog = canon.generate(lang, f"{shard['seed']}:c17:{shard['part']}:{i}", FEATURES, target_functions=rng.randint(3, 7))
        from vf.props.c01 import self_check
        if self_check(prog):
            ctx.count("generator_invalid")
            continue
        ctx.count("programs")
        one_program(ctx, lang, prog, rng, shard["random_subsets"])
    same_line_cases(ctx, lang, rng, 12 * (shard["programs"] // shard["parts"] + 1))
    # real-world files and (Python) programs with body-less one-line defs in front: any text, the unmarked run is the reference
    from vf.gen import hostile
    files = hostile.corpus(lang)
    for idx, (name, text) in enumerate(files):
        if idx % shard["parts"] == shard["part"]:
            generic_program(ctx, lang, text, rng, "corpus", 3)
    for i in range(shard["programs"] // shard["parts"] + 1):
        prog = canon.generate(lang, f"{shard['seed']}:c17g:{shard['part']}:{i}", FEATURES, target_functions=rng.randint(2, 5))
        text = (PY_STUBS + prog.text) if lang == "Python" else prog.text
        generic_program(ctx, lang, text, rng, "stubs_in_front" if lang == "Python" else "generated", 3)


def replay(case, ctx):
    lang = case["language"]
    additions = {int(k): v for k, v in case["additions"].items()}
    marked, spans = append_to_lines(case["text"], additions)
    base = analyze(lang, case["text"])
    got = analyze(lang, marked)
    ctx.eval()
    if case.get("generic"):
        name_line, elig = name_lines_and_eligible(lang, case["text"], base)
        exp = [m for i, m in enumerate(base) if name_line[i] not in additions]
        if got != exp:
            ctx.violation("marked_relation", case, {"new_or_changed": [x for x in got if x not in exp][:5], "missing": [x for x in exp if x not in got][:5]})
        return
    if case.get("same_line"):
        names_on = set()
        tokens = __import__("codelimit.common.lexer_utils", fromlist=["lex"]).lex(pipeline.lexer_for(lang), case["text"], False)
        exp = [m for m in base if not any(t.is_name() and t.value == m[0] and t.location.line in additions for t in tokens)]
        if got != exp:
            ctx.violation("marked_relation", case, {"still_reported_or_changed": [x for x in got if x not in exp][:5]})
        return
    if case.get("decoy"):
        if got != base:
            ctx.violation("decoy_removed_something", case, {"missing": [x for x in base if x not in got][:5]})
        return
    from codelimit.common.lexer_utils import lex
    # recompute: the functions whose name token lies on a marked line
    names_on = set(additions)
    tokens = lex(pipeline.lexer_for(lang), case["text"], False)
    exp = []
    for m in base:
        # name line = line of the first Name token with that value at/after the start
        nl = next((t.location.line for t in tokens if t.is_name() and t.value == m[0] and
                   (t.location.line, t.location.column) >= tuple(m[1])), None)
        if nl not in names_on:
            exp.append(m)
    if got != exp:
        ctx.violation("marked_relation", case, {"still_reported_or_changed": [x for x in got if x not in exp][:5],
                                                "missing": [x for x in exp if x not in got][:5]})


LEVEL_TEXT = ("Two executions of the real analysis per case (with / without markers) are compared: exactly the marked functions "
              "disappear, everything else is identical; decoys change nothing. All subsets of up to 4 eligible functions per "
              "program plus random larger subsets, every spelling and comment style. Metamorphic exploration at run time.")
LEVEL_NOTE = "Trusted: Pygments' classification of the appended text as a comment; the generator's knowledge of each function's name line."
