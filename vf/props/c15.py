"""C15 - built-in header patterns are unambiguous on every token.

Monitor shape: invariant at a hook. The expressions are captured from the real language objects; every reachable
configuration (automaton state x depth class of each parenthesis-balancing predicate) is reached by replaying a
witness token sequence on a fresh real Pattern, and for every token class the monitor (a) counts the transitions of
the current state whose predicate accepts the token (on copies, so the count does not depend on the engine's own
guard) and (b) calls the real Pattern.consume and watches for the ambiguity error. The configuration space is
finite and explored to a fixpoint. A second part feeds random token-class sequences through the real
find_all/starts_with as a cross-check.
"""
from __future__ import annotations

from copy import deepcopy

from vf.capture import all_predicates, describe, get_headers_followups, signature
from vf.common import rng_for, short_tb

ID = "C15"
LEVEL = "model_checking"
TECHNIQUE = ("runtime exploration of the real header automata to a fixpoint: (automaton state x nesting-depth class) "
             "configurations x token classes, counting accepting transitions on the live Pattern objects and watching "
             "Pattern.consume for the ambiguity error; random token sequences through find_all/starts_with on top")
RULE = ("for each language and each expression it passes to the matcher (header pattern and follow-up pattern, captured "
        "at run time): configurations = (DFA state, depth class 0/1/>=2 of every Balanced predicate copy), explored "
        "breadth-first by replaying witness sequences on fresh real Pattern objects until no new configuration appears; "
        "token classes = every standard Pygments token type except comments/whitespace (about 80 kinds) x (every string value a predicate of the expression distinguishes + one fresh value); a case is "
        "one (expression, configuration, token class); non-trivial = at least one transition accepts the token")
ASSUMPTIONS = ["depth classes {0,1,>=2} are a sound abstraction: Balanced.accept depends on depth only through depth>0, "
               "depth==0 after decrement and depth<0, all of which are decided within the classes reached by witnesses",
               "token kinds are Pygments' STANDARD_TYPES; a lexer-specific custom token type would behave like its nearest standard ancestor"]
BOUNDS = {"quick": dict(rand=3000, rlen=24), "thorough": dict(rand=200000, rlen=40)}
EXHAUSTIVE = {"quick": True, "thorough": True}
EXHAUSTIVE_SCOPE = {t: "all reachable (state, depth-class) configurations of every captured expression x all token classes"
                    for t in BOUNDS}
MINIMUM = {"quick": {"monitor.transitions_counted": 20000, "monitor.consume_calls": 20000, "expressions.explored": 10},
           "thorough": {"monitor.transitions_counted": 20000, "monitor.consume_calls": 20000, "expressions.explored": 10}}


def shards(tier, seed):
    b = BOUNDS[tier]
    n = 16 if tier == "quick" else 32
    return [{"part": i, "parts": n, **b} for i in range(n)]


def kinds():
    """every standard Pygments token type (about 80: Keyword.Type, Keyword.Reserved, Name.Builtin, Operator.Word, ...) except
    whitespace and comments, which never reach the matcher"""
    from pygments.token import STANDARD_TYPES, Comment, Whitespace, Token as T

    out = [t for t in sorted(STANDARD_TYPES, key=str) if t is not T and t not in Comment and t not in Whitespace]
    return out + [T.Text]


def distinguished_values(expr):
    vals = set()
    for p in all_predicates(expr):
        for k, v in vars(p).items():
            if isinstance(v, str):
                vals.add(v)
    vals.add("zz")
    return sorted(vals)


def token_classes(expr):
    from codelimit.common.Location import Location
    from codelimit.common.Token import Token

    return [Token(Location(1, 1), k, v) for k in kinds() for v in distinguished_values(expr)]


def build_dfa(expr):
    from codelimit.common.gsm.Expression import expression_to_nfa, nfa_to_dfa

    return nfa_to_dfa(expression_to_nfa(expr))


def depth_class(d):
    return d if d < 2 else 2


def config_key(pattern):
    """(state identity, sorted depth classes of the stateful predicate copies of this attempt)."""
    depths = []
    for pid, pred in sorted(pattern.predicate_map.items()):
        for p in all_predicates(pred):
            if hasattr(p, "depth"):
                depths.append((pid, depth_class(p.depth)))
    return (id(pattern.state), tuple(depths))


def replay_witness(dfa, witness):
    from codelimit.common.gsm.Pattern import Pattern

    pat = Pattern(0, dfa)
    for t in witness:
        if not pat.consume(t):
            return None
    return pat


def count_accepting(pattern, token):
    """Number of transitions of the current state whose predicate (in the state this attempt has brought it to)
    accepts the token; evaluated on deep copies so that neither the attempt nor the engine's guard is involved."""
    n = 0
    for transition in pattern.state.transition:
        pred = pattern.predicate_map.get(id(transition[0]), transition[0])
        if deepcopy(pred).accept(token):
            n += 1
    return n


def explore(ctx, lang, role, expr, case_base):
    dfa = build_dfa(expr)
    classes = token_classes(expr)
    seen = {}
    start = replay_witness(dfa, [])
    seen[config_key(start)] = []
    queue = [[]]
    n_cfg = 0
    while queue:
        witness = queue.pop(0)
        n_cfg += 1
        for tok in classes:
            case = dict(case_base, witness=[[str(t.token_type), t.value] for t in witness],
                        token=[str(tok.token_type), tok.value])
            pat = replay_witness(dfa, witness)
            ctx.eval()
            k = count_accepting(pat, tok)
            ctx.count("monitor.transitions_counted", len(pat.state.transition))
            if k >= 1:
                ctx.count("distinct.counted_in_shard")
            if k > 1:
                ctx.violation("two_transitions_accept", case,
                              {"language": lang, "role": role, "expression": describe(expr), "accepting": k,
                               "after": " ".join(t.value for t in witness), "token": f"{tok.token_type} {tok.value!r}"})
            try:
                ctx.count("monitor.consume_calls")
                nxt = pat.consume(tok)
            except ValueError as e:
                ctx.violation("ambiguity_error", case,
                              {"language": lang, "role": role, "expression": describe(expr), "error": str(e),
                               "after": " ".join(t.value for t in witness), "token": f"{tok.token_type} {tok.value!r}"})
                continue
            except Exception as e:
                ctx.violation("exception", case, {"language": lang, "role": role, "error": f"{type(e).__name__}: {e}",
                                                  "tb": short_tb(4)})
                continue
            if (k >= 1) != bool(nxt):
                ctx.violation("consume_disagrees_with_predicates", case,
                              {"language": lang, "role": role, "accepting": k, "consumed": bool(nxt)})
            if nxt:
                key = config_key(pat)
                if key not in seen:
                    seen[key] = witness + [tok]
                    queue.append(witness + [tok])
        if n_cfg > 5000:
            ctx.inconclusive.append(f"{lang}/{role}: configuration space did not close after 5000 configurations")
            break
    return n_cfg, len(classes)


def expressions():
    out = []
    per_lang = {}
    for lang, expr, fb in get_headers_followups():
        i = per_lang.get(lang, 0)
        per_lang[lang] = i + 1
        out.append((lang, f"header[{i}]", expr, {"language": lang, "index": i, "role": "header"}))
        if fb is not None:
            out.append((lang, f"follow_up[{i}]", fb, {"language": lang, "index": i, "role": "follow_up"}))
    return out


def random_sequences(ctx, shard, exprs):
    from codelimit.common.gsm import matcher

    rng = rng_for(shard["seed"], "c15", shard["part"])
    n = shard["rand"] // shard["parts"]
    for i in range(n):
        lang, role, expr, base = exprs[rng.randrange(len(exprs))]
        classes = token_classes(expr)
        # bias towards parentheses and distinguished values so that groups are opened and closed
        weights = [4 if t.value in ("(", ")", "=>", "{") else 1 for t in classes]
        seq = rng.choices(classes, weights=weights, k=rng.randint(1, shard["rlen"]))
        case = dict(base, random=[[str(t.token_type), t.value] for t in seq])
        ctx.eval()
        ctx.count("cases.random_sequences")
        try:
            if role.startswith("header"):
                matcher.find_all(expr, seq)
            else:
                matcher.starts_with(expr, seq)
            ctx.count("monitor.random_sequences_without_error")
        except ValueError as e:
            ctx.violation("ambiguity_error", case, {"language": lang, "role": role, "error": str(e),
                                                   "tokens": " ".join(t.value for t in seq)})
        except Exception as e:
            ctx.violation("exception", case, {"language": lang, "role": role, "error": f"{type(e).__name__}: {e}",
                                              "tokens": " ".join(t.value for t in seq), "tb": short_tb(4)})


def run(shard, ctx):
    exprs = expressions()
    if shard["part"] == 0:
        ctx.count("expressions.captured", len(exprs))
        ctx.count("languages.captured", len({e[0] for e in exprs}))
    for i, (lang, role, expr, base) in enumerate(exprs):
        if i % shard["parts"] != shard["part"]:
            continue
        n_cfg, n_cls = explore(ctx, lang, role, expr, base)
        ctx.count("expressions.explored")
        ctx.count("states", n_cfg)
        ctx.count("transitions", n_cfg * n_cls)
        ctx.sample({"language": lang, "role": role, "expression": describe(expr), "configurations": n_cfg,
                    "token_classes": n_cls})
    random_sequences(ctx, shard, exprs)


def replay(case, ctx):
    from codelimit.common.Location import Location
    from codelimit.common.Token import Token
    from pygments.token import string_to_tokentype
    from codelimit.common.gsm import matcher

    exprs = [e for e in expressions() if e[3]["language"] == case["language"] and e[3]["index"] == case["index"]
             and e[3]["role"] == case["role"]]
    if not exprs:
        ctx.inconclusive.append("expression of the witness no longer exists")
        return
    lang, role, expr, base = exprs[0]

    def mk(pair):
        return Token(Location(1, 1), string_to_tokentype(pair[0]), pair[1])

    if "random" in case:
        seq = [mk(p) for p in case["random"]]
        ctx.eval()
        try:
            (matcher.find_all if role.startswith("header") else matcher.starts_with)(expr, seq)
        except Exception as e:
            ctx.violation("ambiguity_error" if isinstance(e, ValueError) else "exception", case,
                          {"error": f"{type(e).__name__}: {e}"})
        return
    dfa = build_dfa(expr)
    witness = [mk(p) for p in case["witness"]]
    tok = mk(case["token"])
    pat = replay_witness(dfa, witness)
    ctx.eval()
    if pat is None:
        ctx.inconclusive.append("witness sequence is no longer consumable")
        return
    k = count_accepting(pat, tok)
    if k > 1:
        ctx.violation("two_transitions_accept", case, {"accepting": k})
    try:
        pat.consume(tok)
    except Exception as e:
        ctx.violation("ambiguity_error" if isinstance(e, ValueError) else "exception", case,
                      {"error": f"{type(e).__name__}: {e}"})


def finalize(coverage, agg):
    coverage["states"] = agg["counters"].get("states", 0)
    coverage["transitions"] = agg["counters"].get("transitions", 0)
    coverage["traces_validated_against_impl"] = agg["counters"].get("monitor.consume_calls", 0)
    coverage["explanation"] = ("'states' are configurations of the real automata reached at run time by witness replay, "
                               "'transitions' are (configuration, token class) pairs; every one was executed on the real "
                               "Pattern.consume (traces_validated_against_impl), there is no separate model")


LEVEL_TEXT = ("The configuration space of each shipped header/follow-up automaton (state x parenthesis depth class) is "
              "finite; it is explored completely on the live objects and every (configuration, token class) pair is "
              "executed, so within the stated abstraction this is an exhaustive state-space exploration of the real code "
              "(reported under model_checking because states/transitions are enumerated to a fixpoint; the 'model' is the "
              "implementation itself, driven at run time).")
LEVEL_NOTE = ("Trusted: the depth-class abstraction (argued in assumptions), the list of token kinds. Expressions are "
              "whatever the languages pass to get_headers at run time; a language that bypasses get_headers would be "
              "seen only by the random-sequence part and by C03.")
