"""C15 - built-in header patterns are unambiguous on every token.

Monitor shape: invariant at a hook. The expressions are captured from the real language objects; every reachable
configuration (automaton state x depth class of each parenthesis-balancing predicate) is reached by replaying a
witness token sequence on a fresh real Pattern, and for every token class the monitor (a) counts the transitions of
the current state whose predicate accepts the token (on copies, so the count does not depend on the engine's own
guard) and (b) calls the real Pattern.consume and watches for the ambiguity error. The configuration space is
finite and explored to a fixpoint. A second part feeds random token-class sequences through the real
find_all/starts_with as a cross-check.
"""
from __future__ import annotations

from copy import deepcopy

from vf.capture import all_predicates, describe, get_headers_followups, signature
from vf.common import rng_for, short_tb

ID = "C15"
LEVEL = "model_checking"
TECHNIQUE = ("runtime exploration of the real header automata to a fixpoint: (automaton state x nesting-depth class) "
             "configurations x token classes, counting accepting transitions on the live Pattern objects and watching "
             "Pattern.consume for the ambiguity error; random token sequences through find_all/starts_with on top")
RULE = ("for each language and each expression it passes to the matcher (header pattern and follow-up pattern, captured "
        "at run time): configurations = (DFA state, depth class 0/1/>=2 of every Balanced predicate copy), explored "
        "breadth-first by replaying witness sequences on fresh real Pattern objects until no new configuration appears; "
        "token classes = every standard Pygments token type except comments/whitespace (about 80 kinds) x (every string value a predicate of the expression distinguishes + one fresh value); a case is "
        "one (expression, configuration, token class); non-trivial = at least one transition accepts the token")
ASSUMPTIONS = ["depth classes {0,1,>=2} are a sound abstraction: Balanced.accept depends on depth only through depth>0, "
               "depth==0 after decrement and depth<0, all of which are decided within the classes reached by witnesses",
               "token kinds are Pygments' STANDARD_TYPES; a lexer-specific custom token type would behave like its nearest standard ancestor"]
BOUNDS = {"quick": dict(rand=16000, rlen=24), "thorough": dict(rand=200000, rlen=40)}
EXHAUSTIVE = {"quick": True, "thorough": True}
EXHAUSTIVE_SCOPE = {t: "all reachable (state, depth-class) configurations of every captured expression x all token classes"
                    for t in BOUNDS}
MINIMUM = {"quick": {"monitor.transitions_counted": 20000, "monitor.consume_calls": 20000, "expressions.explored": 10, "monitor.extract_headers_calls": 12000},
           "thorough": {"monitor.transitions_counted": 20000, "monitor.consume_calls": 20000, "expressions.explored": 10}}


def shards(tier, seed):
    b = BOUNDS[tier]
    n = 16 if tier == "quick" else 32
    return [{"part": i, "parts": n, **b} for i in range(n)]


def kinds():
    """every standard Pygments token type (about 80: Keyword.Type, Keyword.Reserved, Name.Builtin, Operator.Word, ...) except
    whitespace and comments, which never reach the matcher"""
    from pygments.token import STANDARD_TYPES, Comment, Whitespace, Token as T

    out = [t for t in sorted(STANDARD_TYPES, key=str) if t is not T and t not in Comment and t not in Whitespace]
    return out + [T.Text]


def is_automaton(x):
    return hasattr(x, "start") and hasattr(x, "is_accepting") and hasattr(x.start, "transition")


def automaton_predicates(dfa):
    """predicates on the transitions of an already built automaton (a language may hand the matcher a compiled DFA)"""
    seen, out, stack = set(), [], [dfa.start]
    while stack:
        st = stack.pop()
        if id(st) in seen:
            continue
        seen.add(id(st))
        for pred, nxt in st.transition:
            out.extend(all_predicates(pred))
            stack.append(nxt)
        stack.extend(getattr(st, "epsilon_transitions", []))
    return out


def distinguished_values(expr):
    vals = set()
    for p in (automaton_predicates(expr) if is_automaton(expr) else all_predicates(expr)):
        for k, v in vars(p).items():
            if isinstance(v, str):
                vals.add(v)
    vals.add("zz")
    return sorted(vals)


def token_classes(expr):
    from codelimit.common.Location import Location
    from codelimit.common.Token import Token

    return [Token(Location(1, 1), k, v) for k in kinds() for v in distinguished_values(expr)]


def build_dfa(expr):
    from codelimit.common.gsm.Expression import expression_to_nfa, nfa_to_dfa

    if is_automaton(expr):
        return expr
    return nfa_to_dfa(expression_to_nfa(expr))


def depth_class(d):
    return d if d < 2 else 2


def config_key(pattern):
    """(state identity, sorted depth classes of the stateful predicate copies of this attempt)."""
    depths = []
    for pid, pred in sorted(pattern.predicate_map.items()):
        for p in all_predicates(pred):
            if hasattr(p, "depth"):
                depths.append((pid, depth_class(p.depth)))
    return (id(pattern.state), tuple(depths))


def replay_witness(dfa, witness):
    from codelimit.common.gsm.Pattern import Pattern

    pat = Pattern(0, dfa)
    for t in witness:
        if not pat.consume(t):
            return None
    return pat


def count_accepting(pattern, token):
    """Number of transitions of the current state whose predicate (in the state this attempt has brought it to)
    accepts the token; evaluated on deep copies so that neither the attempt nor the engine's guard is involved."""
    n = 0
    for transition in pattern.state.transition:
        pred = pattern.predicate_map.get(id(transition[0]), transition[0])
        if deepcopy(pred).accept(token):
            n += 1
    return n


def explore(ctx, lang, role, expr, case_base):
    dfa = build_dfa(expr)
    classes = token_classes(expr)
    seen = {}
    start = replay_witness(dfa, [])
    seen[config_key(start)] = []
    queue = [[]]
    n_cfg = 0
    while queue:
        witness = queue.pop(0)
        n_cfg += 1
        for tok in classes:
            case = dict(case_base, witness=[[str(t.token_type), t.value] for t in witness],
                        token=[str(tok.token_type), tok.value])
            pat = replay_witness(dfa, witness)
            ctx.eval()
            k = count_accepting(pat, tok)
            ctx.count("monitor.transitions_counted", len(pat.state.transition))
            if k >= 1:
                ctx.count("distinct.counted_in_shard")
            if k > 1:
                ctx.violation("two_transitions_accept", case,
                              {"language": lang, "role": role, "expression": describe(expr), "accepting": k,
                               "after": " ".join(t.value for t in witness), "token": f"{tok.token_type} {tok.value!r}"})
            try:
                ctx.count("monitor.consume_calls")
                nxt = pat.consume(tok)
            except ValueError as e:
                ctx.violation("ambiguity_error", case,
                              {"language": lang, "role": role, "expression": describe(expr), "error": str(e),
                               "after": " ".join(t.value for t in witness), "token": f"{tok.token_type} {tok.value!r}"})
                continue
            except Exception as e:
                ctx.violation("exception", case, {"language": lang, "role": role, "error": f"{type(e).__name__}: {e}",
                                                  "tb": short_tb(4)})
                continue
            if (k >= 1) != bool(nxt):
                ctx.violation("consume_disagrees_with_predicates", case,
                              {"language": lang, "role": role, "accepting": k, "consumed": bool(nxt)})
            if nxt:
                key = config_key(pat)
                if key not in seen:
                    seen[key] = witness + [tok]
                    queue.append(witness + [tok])
        if n_cfg > 5000:
            ctx.inconclusive.append(f"{lang}/{role}: configuration space did not close after 5000 configurations")
            break
    return n_cfg, len(classes)


def expressions():
    out = []
    per_lang = {}
    for lang, expr, fb in get_headers_followups():
        i = per_lang.get(lang, 0)
        per_lang[lang] = i + 1
        out.append((lang, f"header[{i}]", expr, {"language": lang, "index": i, "role": "header"}))
        if fb is not None:
            out.append((lang, f"follow_up[{i}]", fb, {"language": lang, "index": i, "role": "follow_up"}))
    return out


def random_sequences(ctx, shard, exprs):
    from codelimit.common.gsm import matcher

    rng = rng_for(shard["seed"], "c15", shard["part"])
    n = shard["rand"] // shard["parts"]
    for i in range(n):
        lang, role, expr, base = exprs[rng.randrange(len(exprs))]
        if is_automaton(expr):
            continue  # a compiled automaton is exercised through the languages' own entry point in call_sequences
        classes = token_classes(expr)
        # bias towards parentheses and distinguished values so that groups are opened and closed
        weights = [4 if t.value in ("(", ")", "=>", "{") else 1 for t in classes]
        seq = rng.choices(classes, weights=weights, k=rng.randint(1, shard["rlen"]))
        case = dict(base, random=[[str(t.token_type), t.value] for t in seq])
        ctx.eval()
        ctx.count("cases.random_sequences")
        try:
            if role.startswith("header"):
                matcher.find_all(expr, seq)
            else:
                matcher.starts_with(expr, seq)
            ctx.count("monitor.random_sequences_without_error")
        except ValueError as e:
            ctx.violation("ambiguity_error", case, {"language": lang, "role": role, "error": str(e),
                                                   "tokens": " ".join(t.value for t in seq)})
        except Exception as e:
            ctx.violation("exception", case, {"language": lang, "role": role, "error": f"{type(e).__name__}: {e}",
                                              "tokens": " ".join(t.value for t in seq), "tb": short_tb(4)})


def language_alphabet(exprs, lang):
    from codelimit.common.Location import Location
    from codelimit.common.Token import Token
    from pygments.token import Token as T

    vals = {"(", ")", "{", "}", "=", "=>", ":", ";", ",", "zz", "function", "const", "async", "def", "throws", "new", "record", "if", "class"}
    for l, role, expr, base in exprs:
        if l == lang:
            vals |= set(distinguished_values(expr))
    toks = []
    for v in sorted(vals):
        for k in (T.Keyword, T.Keyword.Declaration, T.Keyword.Type, T.Name, T.Name.Function, T.Punctuation, T.Operator, T.Literal.String):
            toks.append((str(k), v))
    return toks


def call_sequences(ctx, shard, exprs):
    """Reachable matcher states include whatever earlier calls in the same process left behind. Each language's real
    extract_headers is called on a long series of token sequences (many of them ending inside an open parenthesis group, as
    truncated files do), in one process, and the ambiguity error is watched for. Independent of how a language passes its patterns
    to the matcher."""
    from codelimit.common.Location import Location
    from codelimit.common.Token import Token
    from codelimit.languages import Languages
    from pygments.token import string_to_tokentype

    rng = rng_for(shard["seed"], "c15seq", shard["part"])
    langs = sorted(Languages.by_name)
    n = shard["rand"] // shard["parts"]
    recent = []
    for i in range(n):
        lang = langs[(i + shard["part"]) % len(langs)]
        alpha = language_alphabet(exprs, lang)
        weights = [6 if v in ("(", ")", "=", "=>", "{") else 3 if v in ("async", "function", "const", "def", "zz") else 1 for _, v in alpha]
        k = rng.randint(1, shard["rlen"])
        seq = rng.choices(alpha, weights=weights, k=k)
        if rng.random() < 0.5:
            # a header-like prefix that stays open at the end of input, or a clean header start
            pre = rng.choice([[("Token.Keyword.Declaration", "const")], []]) + [("Token.Name", "zz"), ("Token.Operator", "="), ("Token.Punctuation", "(")]
            seq = (seq + pre) if rng.random() < 0.5 else (pre[:-1] + [("Token.Keyword", "async"), ("Token.Punctuation", "(")] + seq)
        toks = [Token(Location(1, 1 + 2 * j), string_to_tokentype(t), v) for j, (t, v) in enumerate(seq)]
        recent = (recent + [[lang, seq]])[-4:]
        ctx.eval()
        ctx.count("monitor.extract_headers_calls")
        try:
            Languages.by_name[lang].extract_headers(toks)
        except ValueError as e:
            if "Multiple transitions" in str(e):
                ctx.violation("ambiguity_error_in_call_sequence", {"call_sequence": recent},
                              {"language": lang, "error": str(e), "tokens": " ".join(v for _, v in seq)[:200],
                               "previous_calls": [[l, " ".join(v for _, v in s)[:80]] for l, s in recent[:-1]]})
                recent = []
            else:
                ctx.count("other_exceptions_judged_by_C03")
        except Exception:
            ctx.count("other_exceptions_judged_by_C03")


def run(shard, ctx):
    exprs = expressions()
    if shard["part"] == 0:
        ctx.count("expressions.captured", len(exprs))
        ctx.count("languages.captured", len({e[0] for e in exprs}))
    for i, (lang, role, expr, base) in enumerate(exprs):
        if i % shard["parts"] != shard["part"]:
            continue
        n_cfg, n_cls = explore(ctx, lang, role, expr, base)
        ctx.count("expressions.explored")
        ctx.count("states", n_cfg)
        ctx.count("transitions", n_cfg * n_cls)
        ctx.sample({"language": lang, "role": role, "expression": describe(expr), "configurations": n_cfg,
                    "token_classes": n_cls})
    random_sequences(ctx, shard, exprs)
    call_sequences(ctx, shard, exprs)


def replay(case, ctx):
    from codelimit.common.Location import Location
    from codelimit.common.Token import Token
    from pygments.token import string_to_tokentype
    from codelimit.common.gsm import matcher

    if "call_sequence" in case:
        from codelimit.languages import Languages
        for lang, seq in case["call_sequence"]:
            toks = [Token(Location(1, 1 + 2 * j), string_to_tokentype(t), v) for j, (t, v) in enumerate(seq)]
            ctx.eval()
            try:
                Languages.by_name[lang].extract_headers(toks)
            except ValueError as e:
                if "Multiple transitions" in str(e):
                    ctx.violation("ambiguity_error_in_call_sequence", case, {"language": lang, "error": str(e)})
            except Exception:
                pass
        return
    exprs = [e for e in expressions() if e[3]["language"] == case["language"] and e[3]["index"] == case["index"]
             and e[3]["role"] == case["role"]]
    if not exprs:
        ctx.inconclusive.append("expression of the witness no longer exists")
        return
    lang, role, expr, base = exprs[0]

    def mk(pair):
        return Token(Location(1, 1), string_to_tokentype(pair[0]), pair[1])

    if "random" in case:
        seq = [mk(p) for p in case["random"]]
        ctx.eval()
        try:
            (matcher.find_all if role.startswith("header") else matcher.starts_with)(expr, seq)
        except Exception as e:
            ctx.violation("ambiguity_error" if isinstance(e, ValueError) else "exception", case,
                          {"error": f"{type(e).__name__}: {e}"})
        return
    dfa = build_dfa(expr)
    witness = [mk(p) for p in case["witness"]]
    tok = mk(case["token"])
    pat = replay_witness(dfa, witness)
    ctx.eval()
    if pat is None:
        ctx.inconclusive.append("witness sequence is no longer consumable")
        return
    k = count_accepting(pat, tok)
    if k > 1:
        ctx.violation("two_transitions_accept", case, {"accepting": k})
    try:
        pat.consume(tok)
    except Exception as e:
        ctx.violation("ambiguity_error" if isinstance(e, ValueError) else "exception", case,
                      {"error": f"{type(e).__name__}: {e}"})


def finalize(coverage, agg):
    coverage["states"] = agg["counters"].get("states", 0)
    coverage["transitions"] = agg["counters"].get("transitions", 0)
    coverage["traces_validated_against_impl"] = agg["counters"].get("monitor.consume_calls", 0)
    coverage["explanation"] = ("'states' are configurations of the real automata reached at run time by witness replay, "
                               "'transitions' are (configuration, token class) pairs; every one was executed on the real "
                               "Pattern.consume (traces_validated_against_impl), there is no separate model")


LEVEL_TEXT = ("The configuration space of each shipped header/follow-up automaton (state x parenthesis depth class) is "
              "finite; it is explored completely on the live objects and every (configuration, token class) pair is "
              "executed, so within the stated abstraction this is an exhaustive state-space exploration of the real code "
              "(reported under model_checking because states/transitions are enumerated to a fixpoint; the 'model' is the "
              "implementation itself, driven at run time).")
LEVEL_NOTE = ("Trusted: the depth-class abstraction (argued in assumptions), the list of token kinds. Expressions are "
              "whatever the languages pass to get_headers at run time; a language that bypasses get_headers would be "
              "seen only by the random-sequence part and by C03.")
