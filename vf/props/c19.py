"""C19 - summary percentages and verdict are sane.

Monitor shape: contract (icontract ensure) on the real Report.quality_profile_percentage with exact integer/rational
arithmetic for the true shares, plus a parse of what print_summary (text, Markdown) and SummaryTable actually display
on a recording console: displayed triple and verdict.
"""
from __future__ import annotations

import io
import re

from vf import MonitorViolation
from vf.common import Unpatch, ensure, rng_for, short_tb

ID = "C19"
LEVEL = "exploration"
TECHNIQUE = ("runtime contract (icontract ensure) on the real Report.quality_profile_percentage with exact arithmetic, "
             "exhaustive over all profiles up to a total bound; rendered summaries (text/Markdown) parsed from a recording "
             "console for the displayed triple and the verdict")
RULE = ("one case = one quality profile (four non-negative integers). Exhaustive part: all profiles with total <= bound, injected "
        "into a real Report the way the repository's own test does (report.quality_profile = lambda: p). Realised part: profiles "
        "built as real measurement lists (lengths chosen per category), so the real quality_profile and both renderers are in "
        "the loop; plus random large totals and near-ties. non-trivial = at least two categories non-zero; distinct = distinct profiles")
ASSUMPTIONS = ["rich renders the summary line and table cells verbatim on a wide, non-terminal recording console"]
BOUNDS = {"quick": dict(total=60, n=32, realised=1600, random=40000), "thorough": dict(total=100, n=128, realised=100000, random=2000000)}
EXHAUSTIVE = {"quick": True, "thorough": True}
EXHAUSTIVE_SCOPE = {t: f"all profiles (4 non-negative integers) with total <= {b['total']}" for t, b in BOUNDS.items()}
MINIMUM = {"quick": {"monitor.percentage_contract": 600000, "monitor.rendered_summaries": 3000, "cases.large_total_thresholds": 800},
           "thorough": {"monitor.percentage_contract": 4000000, "monitor.rendered_summaries": 150000}}


def shards(tier, seed):
    b = BOUNDS[tier]
    return [{"part": i, "parts": b["n"], **b} for i in range(b["n"])]


def triple_problems(profile, result):
    """property C19 on the displayed triple (easy+verbose, hard, unmaintainable), exact arithmetic"""
    problems = []
    try:
        easy, verbose, hard, unm = result
    except Exception:
        return [{"problem": "result_is_not_a_4_tuple", "result": repr(result)}]
    ev = easy + verbose
    shown = {"easy_or_verbose": ev, "hard_to_maintain": hard, "unmaintainable": unm}
    for k, v in shown.items():
        if not isinstance(v, int) or isinstance(v, bool):
            problems.append({"problem": "not_an_integer", "category": k, "value": repr(v)})
            return problems
        if not (0 <= v <= 100):
            problems.append({"problem": "outside_0_100", "category": k, "value": v})
    if ev + hard + unm != 100:
        problems.append({"problem": "does_not_sum_to_100", "shown": shown})
    total = sum(profile)
    if total > 0:
        true = {"easy_or_verbose": profile[0] + profile[1], "hard_to_maintain": profile[2], "unmaintainable": profile[3]}
        for k, v in shown.items():
            # |v - 100*p/total| <= 2   <=>   |v*total - 100*p| <= 2*total
            if abs(v * total - 100 * true[k]) > 2 * total:
                problems.append({"problem": "more_than_two_points_from_true_share", "category": k, "shown": v,
                                 "true_percent": round(100 * true[k] / total, 4)})
        for k in ("hard_to_maintain", "unmaintainable"):
            if shown[k] == 0 and true[k] * 100000 > total:  # share > 0.001 %
                problems.append({"problem": "non_negligible_category_shown_as_0", "category": k,
                                 "true_percent": round(100 * true[k] / total, 6)})
    return problems


class Contract:
    def __init__(self, ctx):
        from codelimit.common.report import Report as R

        self.ctx = ctx
        self.problems = None
        self.R = R

        outer = self

        def percentages_sane(self, result):
            ctx.count("monitor.percentage_contract")
            outer.problems = triple_problems(self.quality_profile(), result)
            return not outer.problems

        self.orig = R.Report.quality_profile_percentage
        self.wrapped = ensure(self.orig, percentages_sane, ID)

    def __enter__(self):
        self.R.Report.quality_profile_percentage = self.wrapped
        return self

    def __exit__(self, *a):
        self.R.Report.quality_profile_percentage = self.orig
        return False


def all_profiles(total_max):
    for t in range(0, total_max + 1):
        for a in range(t + 1):
            for b in range(t - a + 1):
                for c in range(t - a - b + 1):
                    yield (a, b, c, t - a - b - c)


def lengths_for(category, amount, rng):
    """function lengths of one category summing to `amount` (possible iff amount is 0 or >= the category minimum)"""
    lo, hi = {0: (1, 15), 1: (16, 30), 2: (31, 60), 3: (61, 400)}[category]
    out = []
    while amount > 0:
        if amount < lo:
            return None
        v = rng.randint(lo, min(hi, amount))
        if 0 < amount - v < lo:
            v = amount if amount <= hi else v - (lo - (amount - v))
            if not (lo <= v <= hi):
                return None
        out.append(v)
        amount -= v
    return out


def realise(profile, rng):
    from codelimit.common.Codebase import Codebase
    from codelimit.common.Location import Location
    from codelimit.common.Measurement import Measurement
    from codelimit.common.SourceFileEntry import SourceFileEntry
    from codelimit.common.report.Report import Report

    lens = []
    for cat, amount in enumerate(profile):
        ls = lengths_for(cat, amount, rng)
        if ls is None:
            return None
        lens += ls
    rng.shuffle(lens)
    cb = Codebase("/root")
    k = max(1, len(lens) // 5)
    for i in range(0, max(1, len(lens)), k):
        chunk = lens[i:i + k]
        ms = [Measurement(f"f{i}_{j}", Location(1 + j, 1), Location(1 + j + v, 1), v) for j, v in enumerate(chunk)]
        cb.add_file(SourceFileEntry(f"d{i % 3}/f{i}.py", "0" * 32, "Python", sum(chunk), ms))
    cb.aggregate()
    return Report(cb)


PCT = re.compile(r"(-?\d+(?:[.,]\d+)?)\s*%")


def rendered(report):
    """what the user sees: (triple, verdict) for text and markdown renderings"""
    from rich.console import Console
    from codelimit.common.report import format_markdown, format_text

    out = {}
    for name, fn in (("text", format_text.print_summary), ("markdown", format_markdown.print_summary)):
        con = Console(record=True, width=300, force_terminal=False, color_system=None, file=io.StringIO())
        fn(con, report)
        text = con.export_text()
        lines = [ln for ln in text.split("\n") if ln.strip()]
        row = None
        verdict = None
        verdict_pct = None
        for ln in lines:
            if "refactoring necessary" in ln:
                verdict = "no refactoring necessary" not in ln
                m = PCT.search(ln)
                verdict_pct = m.group(1) if m else None
            else:
                ps = PCT.findall(ln)
                if len(ps) == 3:
                    row = ps
        out[name] = (row, verdict, verdict_pct, text)
    return out


def check_rendered(ctx, report, profile, case):
    try:
        tup = report.quality_profile_percentage()
    except MonitorViolation:
        return  # already recorded by the caller
    easy, verbose, hard, unm = tup
    exp_row = [str(easy + verbose), str(hard), str(unm)]
    exp_verdict = (unm > 0) or (hard > 20)
    try:
        r = rendered(report)
    except MonitorViolation:
        return
    except Exception as e:
        ctx.violation("render_exception", case, {"error": f"{type(e).__name__}: {e}", "tb": short_tb(4)})
        return
    for fmt, (row, verdict, verdict_pct, text) in r.items():
        ctx.count("monitor.rendered_summaries")
        if row != exp_row:
            ctx.violation("displayed_triple", case, {"format": fmt, "displayed": row, "from_percentages": exp_row, "profile": list(profile)})
        if verdict is None:
            ctx.violation("no_verdict_line", case, {"format": fmt, "text": text[-300:]})
        elif verdict != exp_verdict:
            ctx.violation("verdict", case, {"format": fmt, "refactoring_necessary_shown": verdict, "expected": exp_verdict,
                                            "hard": hard, "unmaintainable": unm, "profile": list(profile)})
        if verdict:
            ctx.count("verdicts.refactoring_necessary")
        else:
            ctx.count("verdicts.no_refactoring")


def one_injected(ctx, report, profile):
    ctx.eval()
    p = list(profile)
    report.quality_profile = lambda: p
    try:
        r = report.quality_profile_percentage()
        if len(ctx.samples) < 3 and p[2] and p[3] and sum(p) > 20:
            ctx.sample({"profile": p, "percentages(easy,verbose,hard,unmaintainable)": list(r)})
    except MonitorViolation:
        ctx.violation("percentage_contract", {"profile": p, "mode": "injected"}, {"profile": p, "problems": contract_problems()})
    except Exception as e:
        ctx.violation("exception", {"profile": p, "mode": "injected"}, {"error": f"{type(e).__name__}: {e}"})


_CUR = {}


def contract_problems():
    return _CUR["c"].problems


def run(shard, ctx):
    from codelimit.common.Codebase import Codebase
    from codelimit.common.report.Report import Report

    rng = rng_for(shard["seed"], "c19", shard["part"])
    with Contract(ctx) as c:
        _CUR["c"] = c
        report = Report(Codebase("/"))
        k = 0
        for p in all_profiles(shard["total"]):
            k += 1
            if k % shard["parts"] != shard["part"]:
                continue
            one_injected(ctx, report, p)
            if sum(1 for x in p if x) >= 2:
                ctx.count("distinct.counted_in_shard")
            if k % 97 == 0:
                check_rendered(ctx, report, p, {"profile": list(p), "mode": "injected"})
        # random large totals incl. near ties
        for i in range(shard["random"] // shard["parts"]):
            kind = rng.random()
            if kind < 0.3:
                t = rng.randint(50, 5000)
                a = rng.randint(0, t)
                p = (0, t - a, a, 0) if rng.random() < 0.3 else (rng.randint(0, 3), 0, a, t - a)
            elif kind < 0.5:
                t = rng.choice([199, 200, 201, 1000, 999, 10000, 100001])
                h = t // 2 + rng.randint(-2, 2)
                p = (0, 0, h, t - h)
            elif kind < 0.7:
                big = rng.randint(10**4, 10**7)
                p = (big, rng.randint(0, big), rng.randint(0, 3), rng.randint(0, 3))
            else:
                p = tuple(rng.randint(0, 10 ** rng.randint(0, 6)) for _ in range(4))
            one_injected(ctx, report, p)
            ctx.distinct(list(p))
            if i % 50 == 0:
                check_rendered(ctx, report, p, {"profile": list(p), "mode": "injected"})
        # thresholds at LARGE totals: the verdict's 20 % boundary and the 0.001 % rule sit on windows that only open when the
        # total is large (a share in (20 %, 20.001 %] needs a total >= 20000); every one of these goes through the renderers
        totals = [10 ** e for e in range(3, 9)] + [200, 201, 250, 400, 7031, 18061, 20000, 20005, 99999, 100001, 123457, 5 * 10 ** 5, 2 * 10 ** 6 + 3]
        totals += [rng.randint(10 ** 3, 10 ** 8) for _ in range(6)]
        k2 = 0
        for T in totals:
            fams = []
            for d in range(-3, 5):
                h = T // 5 + d
                fams += [(T - h, 0, h, 0), (0, T - h, h, 0), ((T - h) // 2, T - h - (T - h) // 2, h, 0)]
                if T > 10 ** 5:
                    fams.append((T - h - 1, 0, h, 1))  # an unmaintainable share of at most 0.001 % may show as 0 %
                u = T // 100000 + d
                if 0 <= u <= T:
                    fams += [(T - u, 0, 0, u), (T - u - 1, 0, u, 1 if T - u - 1 >= 0 else 0)]
                half = T // 2 + d
                fams.append((0, 0, half, T - half))
            # nearly everything in ONE severe category, a sliver in the other (and possibly a sliver of easy code): a share above
            # 0.001 % must never be shown as 0 %
            for u in sorted({1, 2, 3, 7, T // 1000, T // 300, T // 201, T // 200, T // 199, T // 150, T // 100 + 1} - {0}):
                for e in (0, 1, 3):
                    if T - u - e > 0:
                        fams += [(e, 0, T - u - e, u), (e, 0, u, T - u - e), (0, e, T - u - e, u), (0, e, u, T - u - e)]
            for p in fams:
                if min(p) < 0:
                    continue
                k2 += 1
                if k2 % shard["parts"] != shard["part"]:
                    continue
                one_injected(ctx, report, p)
                check_rendered(ctx, report, p, {"profile": list(p), "mode": "injected"})
                ctx.distinct(list(p))
                ctx.count("cases.large_total_thresholds")
        # realised profiles: real measurement lists, real quality_profile, real renderers
        done = 0
        tries = 0
        while done < shard["realised"] // shard["parts"] and tries < 20 * shard["realised"]:
            tries += 1
            p = (rng.choice([0, 0, rng.randint(1, 300)]), rng.choice([0, 0, rng.randint(16, 400)]),
                 rng.choice([0, 0, rng.randint(31, 600)]), rng.choice([0, 0, rng.randint(61, 900)]))
            if rng.random() < 0.3:  # near the 20 % hard threshold and tiny unmaintainable shares
                t = rng.randint(200, 2000)
                h = int(t * rng.choice([0.19, 0.2, 0.205, 0.21])) or 31
                p = (t - h, 0, max(31, h), rng.choice([0, 0, 61]))
            rep = realise(p, rng)
            if rep is None:
                continue
            done += 1
            ctx.eval()
            ctx.count("cases.realised")
            case = {"profile": list(p), "mode": "realised", "seed": [shard["seed"], shard["part"], tries]}
            try:
                if rep.quality_profile() != list(p):
                    ctx.inconclusive.append(f"harness: realised profile {rep.quality_profile()} != requested {p}")
                    continue
                rep.quality_profile_percentage()
            except MonitorViolation:
                ctx.violation("percentage_contract", case, {"profile": list(p), "problems": c.problems})
                continue
            check_rendered(ctx, rep, p, case)
            ctx.distinct(list(p))


def replay(case, ctx):
    from codelimit.common.Codebase import Codebase
    from codelimit.common.report.Report import Report

    rng = rng_for(0, "c19-replay")
    with Contract(ctx) as c:
        _CUR["c"] = c
        p = tuple(case["profile"])
        if case.get("mode") == "realised":
            rep = realise(p, rng)
            if rep is None:
                ctx.inconclusive.append("profile cannot be realised")
                return
            ctx.eval()
            try:
                rep.quality_profile_percentage()
            except MonitorViolation:
                ctx.violation("percentage_contract", case, {"problems": c.problems})
                return
            check_rendered(ctx, rep, p, case)
        else:
            report = Report(Codebase("/"))
            one_injected(ctx, report, p)
            check_rendered(ctx, report, p, case)


LEVEL_TEXT = ("The function's whole real domain up to the bound (every profile of four non-negative integers with total <= bound) "
              "is executed under a contract with exact arithmetic; random large and near-tie profiles and profiles realised as "
              "real measurement lists go through the real renderers whose output is parsed. Exhaustive inside the bound; the "
              "right level because rounding faults need specific small totals, which enumeration finds.")
LEVEL_NOTE = "Trusted: Python integer arithmetic; rich's verbatim rendering of numbers on a wide recording console."
