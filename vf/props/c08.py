"""C08 - the report document is always valid JSON and round-trips losslessly.

Monitor shape: reference-model / differential monitor at the boundary of the real ReportWriter and ReportReader:
Python's json module is the trusted JSON oracle for the written text (pretty and compact), a field-by-field structural
comparison relates the parsed document and the re-read Report to the Report that was written, and the re-written
document is compared textually with the timestamp masked.
"""
from __future__ import annotations

import json
import re

from vf.common import clip, rng_for, short_tb
from vf.gen import codebases as G

ID = "C08"
LEVEL = "exploration"
TECHNIQUE = ("differential monitor on the real ReportWriter/ReportReader: json.loads as oracle for validity (pretty + compact), "
             "field-by-field comparison of parsed document and re-read report with the written report, textual comparison of "
             "the re-written document modulo timestamp; hostile Unicode in every string field")
RULE = ("one case = one report: a random codebase (as in C07) whose string fields (file paths, function names, root, repository "
        "owner/name/branch) are drawn from plain, hostile (quotes, backslashes, control characters, separators, JSON look-alikes) "
        "and non-ASCII/non-BMP pieces, with/without repository, version in {current, another, None}; plus a sweep placing every "
        "single character U+0000-U+00FF and sampled code points in each string field; non-trivial = at least one string field "
        "contains a character that needs escaping or is non-ASCII; distinct = distinct reports")
ASSUMPTIONS = ["Python's json module is a correct JSON parser", "paths are relative, '/'-separated, with non-empty components"]
BOUNDS = {"quick": dict(n=32, random=60000, sweep=1), "thorough": dict(n=64, random=400000, sweep=4)}
MINIMUM = {"quick": {"monitor.documents_parsed": 100000, "monitor.roundtrips": 50000},
           "thorough": {"monitor.documents_parsed": 700000, "monitor.roundtrips": 300000}}
NEEDS_ESCAPE = re.compile(r'["\\\x00-\x1f]|[^\x00-\x7f]')


def shards(tier, seed):
    b = BOUNDS[tier]
    return [{"part": i, "parts": b["n"], **b} for i in range(b["n"])]


def make_report(spec):
    from codelimit.common.GithubRepository import GithubRepository
    from codelimit.common.report.Report import Report

    cb = G.build_codebase(spec)
    cb.aggregate()
    repo = None
    if spec.get("repository"):
        r = spec["repository"]
        repo = GithubRepository(r["owner"], r["name"], branch=r["branch"])
    rep = Report(cb, repo)
    if "version" in spec:
        rep.version = spec["version"]
    if "uuid" in spec:
        rep.uuid = spec["uuid"]
    return rep


def report_fields(rep):
    """the fields the property names, as plain data"""
    return {
        "version": rep.version, "uuid": rep.uuid, "root": rep.codebase.root,
        "repository": None if rep.repository is None else {"owner": rep.repository.owner, "name": rep.repository.name,
                                                           "branch": rep.repository.branch},
        "files": [[p, e.checksum(), e.language, e.loc,
                   [[m.unit_name, [m.start.line, m.start.column], [m.end.line, m.end.column], m.value] for m in e.measurements()]]
                  for p, e in rep.codebase.files.items()],
        "totals": {k: [v.files, v.loc, v.functions, v.hard_to_maintain, v.unmaintainable] for k, v in rep.codebase.totals.items()},
        "folder_profiles": {k: list(f.profile) for k, f in rep.codebase.tree.items()},
        "folder_entries": {k: [x.name for x in f.entries] for k, f in rep.codebase.tree.items()},
    }


def document_fields(doc):
    cb = doc["codebase"]
    return {
        "version": doc.get("version"), "uuid": doc.get("uuid"), "root": doc.get("root"),
        "repository": None if "repository" not in doc else {k: doc["repository"].get(k) for k in ("owner", "name", "branch")},
        "files": [[p, v["checksum"], v["language"], v["loc"],
                   [[m["unit_name"], [m["start"]["line"], m["start"]["column"]], [m["end"]["line"], m["end"]["column"]], m["value"]]
                    for m in v["measurements"]]] for p, v in cb["files"].items()],
        "totals": {k: [v["files"], v["lines_of_code"], v["functions"], v["hard_to_maintain"], v["unmaintainable"]] for k, v in cb["totals"].items()},
        "folder_profiles": {k: v["profile"] for k, v in cb["tree"].items()},
        "folder_entries": {k: v["entries"] for k, v in cb["tree"].items()},
    }


def first_diff(a, b):
    for k in a:
        if a[k] != b.get(k):
            return {"field": k, "written": clip(repr(a[k]), 300), "observed": clip(repr(b.get(k)), 300)}
    return None


def mask_timestamp(text):
    return re.sub(r'"timestamp":\s*"[^"]*"', '"timestamp": "T"', text)


def one_report(ctx, spec, label):
    from codelimit.common.report.ReportReader import ReportReader
    from codelimit.common.report.ReportWriter import ReportWriter

    case = {"spec": spec}
    ctx.eval()
    try:
        rep = make_report(spec)
    except Exception as e:
        ctx.inconclusive.append(f"harness: building the report failed: {type(e).__name__}: {e}")
        return
    want = report_fields(rep)
    strings = [want["root"]] + [f[0] for f in want["files"]] + [m[0] for f in want["files"] for m in f[4]]
    if want["repository"]:
        strings += [str(v) for v in want["repository"].values()]
    if any(NEEDS_ESCAPE.search(s) for s in strings):
        ctx.distinct(spec)
        ctx.count("cases.with_characters_needing_escape")
    docs = {}
    for pretty in (True, False):
        try:
            text = ReportWriter(rep, pretty).to_json()
        except Exception as e:
            ctx.violation("writer_exception", case, {"class": label, "pretty": pretty, "error": f"{type(e).__name__}: {e}", "tb": short_tb(4)})
            return
        try:
            docs[pretty] = (text, json.loads(text))
            ctx.count("monitor.documents_parsed")
        except json.JSONDecodeError as e:
            ctx.violation("invalid_json", case, {"class": label, "pretty": pretty, "error": str(e)[:200],
                                                 "around": clip(text[max(0, e.pos - 60): e.pos + 40], 120)})
            return
    if docs[True][1] != docs[False][1]:
        ctx.violation("pretty_and_compact_differ", case, {"class": label})
    got = document_fields(docs[True][1])
    d = first_diff(want, got)
    if d:
        ctx.violation("document_field", case, {"class": label, **d})
    text = docs[True][0]
    try:
        v = ReportReader.get_report_version(text)
        if v != rep.version:
            ctx.violation("get_report_version", case, {"class": label, "written": rep.version, "observed": v})
        rep2 = ReportReader.from_json(text)
        ctx.count("monitor.roundtrips")
    except Exception as e:
        ctx.violation("reader_exception", case, {"class": label, "error": f"{type(e).__name__}: {e}", "tb": short_tb(4)})
        return
    d = first_diff(want, report_fields(rep2))
    if d:
        ctx.violation("roundtrip_field", case, {"class": label, **d})
        return
    try:
        again = ReportWriter(rep2, True).to_json()
    except Exception as e:
        ctx.violation("rewrite_exception", case, {"class": label, "error": f"{type(e).__name__}: {e}"})
        return
    if mask_timestamp(again) != mask_timestamp(text):
        a, b = mask_timestamp(text).split("\n"), mask_timestamp(again).split("\n")
        k = next((i for i, (x, y) in enumerate(zip(a, b)) if x != y), min(len(a), len(b)))
        ctx.violation("rewrite_differs", case, {"class": label, "line": k, "written": clip(a[k] if k < len(a) else "", 160),
                                                "rewritten": clip(b[k] if k < len(b) else "", 160)})
    if rep2.timestamp != rep.timestamp:
        ctx.count("info.timestamp_not_restored")  # allowed by the property ("up to its timestamp")


def random_spec(rng, hostile):
    spec = G.codebase_spec(rng, max_files=rng.choice([3, 8, 20]), hostile=hostile)
    if rng.random() < 0.5:
        spec["repository"] = {"owner": G.hostile_string(rng) if hostile else "owner", "name": G.hostile_string(rng) if hostile else "name",
                              "branch": rng.choice([G.hostile_string(rng) if hostile else "main", "feature/x", None])}
    if len(spec["entries"]) >= 2 and rng.random() < 0.3:
        # same checksum, different measurements (the same bytes under two languages are measured differently)
        a, b = rng.sample(range(len(spec["entries"])), 2)
        spec["entries"][b]["checksum"] = spec["entries"][a]["checksum"]
        if rng.random() < 0.5 and len(spec["entries"]) >= 3:
            spec["entries"][rng.randrange(len(spec["entries"]))]["checksum"] = spec["entries"][a]["checksum"]
    k = rng.random()
    if k < 0.25:
        spec["version"] = rng.choice(["0.0.1", "99.0", "v\"1", ""])
    elif k < 0.35:
        spec["version"] = None
    if rng.random() < 0.1 and hostile:
        spec["uuid"] = G.hostile_string(rng)
    return spec


def sweep_specs(rng, part, parts, rounds):
    """every single character U+0000-U+00FF (and sampled code points) placed in each string field"""
    cps = list(range(0x100)) + [0x2028, 0x2029, 0xFEFF, 0xFFFD, 0xFFFF, 0x10000, 0x1F600, 0x10FFFF, 0xD7FF, 0xE000]
    for _ in range(rounds - 1):
        cps += [rng.randrange(0x100, 0x110000) for _ in range(500)]
    cps = [c for c in cps if not (0xD800 <= c <= 0xDFFF)]
    for i, cp in enumerate(cps):
        if i % parts != part:
            continue
        ch = chr(cp)
        for field in ("path", "unit_name", "root", "owner", "name", "branch", "language_key"):
            if field == "path" and ch in "/\x00":
                continue
            spec = {"root": "/r", "entries": [{"path": "d/a.py", "checksum": "0" * 32, "language": "Python", "loc": 31,
                                               "measurements": [["fn", [1, 1], [31, 2], 31]]}]}
            if field == "path":
                spec["entries"][0]["path"] = f"d{ch}x/a{ch}.py"
            elif field == "unit_name":
                spec["entries"][0]["measurements"][0][0] = f"f{ch}n"
            elif field == "root":
                spec["root"] = f"/r{ch}oot"
            elif field == "language_key":
                spec["entries"][0]["language"] = f"L{ch}"
            else:
                spec["repository"] = {"owner": "o", "name": "n", "branch": "b"}
                spec["repository"][field] = f"x{ch}y"
            yield spec, field


def run(shard, ctx):
    rng = rng_for(shard["seed"], "c08", shard["part"])
    for i in range(shard["random"] // shard["parts"]):
        hostile = rng.random() < 0.7
        spec = random_spec(rng, hostile)
        one_report(ctx, spec, "hostile" if hostile else "plain")
        ctx.count("cases.hostile" if hostile else "cases.plain")
        if i == 1:
            ctx.sample({"root": spec["root"], "repository": spec.get("repository"), "version": spec.get("version", "(current)"),
                        "paths": [e["path"] for e in spec["entries"][:5]],
                        "names": [m[0] for e in spec["entries"][:3] for m in e["measurements"][:3]]})
    for spec, field in sweep_specs(rng, shard["part"], shard["parts"], shard["sweep"]):
        one_report(ctx, spec, "sweep:" + field)
        ctx.count("cases.single_character_sweep")


def replay(case, ctx):
    one_report(ctx, case["spec"], "replay")


LEVEL_TEXT = ("Every written document is parsed with Python's json (pretty and compact), compared field by field with the report it was "
              "written from, re-read with the real reader, compared again, and re-written and compared textually. Random reports with "
              "hostile strings in every string field plus a sweep of every single character up to U+00FF in each field. Exploration; the "
              "right level because the faults are missing escapes for particular characters, which the sweep enumerates.")
LEVEL_NOTE = "Trusted: Python's json parser. Lone surrogates are not generated (they cannot be written to a UTF-8 file at all)."
