"""C16 - token positions are faithful to the source text.

Monitor shape: contract (icontract ensure) on the real lexer_utils.lex, installed with patch_everywhere so that
every caller (Scanner, check) goes through it. The post-condition recomputes offsets from the text itself,
compares slices, order, overlap, whitespace/comment filtering, location_to_index, and additionally compares the
whole result with the untouched Pygments stream positioned by the monitor's own arithmetic.
"""
from __future__ import annotations

import itertools

from vf import MonitorViolation, pipeline
from vf.common import Unpatch, clip, ensure, rng_for, short_tb
from vf.gen import canon
from vf.monitors import token_position_problems
from vf.workloads import texts

ID = "C16"
LEVEL = "exploration"
TECHNIQUE = ("runtime contract (icontract ensure) on the real lex(): positions recomputed from the text, order/overlap/"
             "filter invariants, location_to_index cross-check and comparison with the raw Pygments stream; exhaustive "
             "short strings over a boundary alphabet + generated, hostile and real-world texts")
RULE = ("one case = (language, text, filter flag); boundary family: all strings up to the length bound over "
        "{a, space, newline, tab, '(', '\"', comment leader, e-acute} per language, enumerated exhaustively, and all strings one "
        "shorter over {a, newline, FF, CR, LS, NEL, VT, '('}; plus the union "
        "workload (canonical programs, every prefix/suffix of small programs, line/token mutations, token soups, targeted "
        "shapes, vendored corpus with cuts); non-trivial = at least 2 kept tokens; distinct = distinct (language, text)")
ASSUMPTIONS = ["Pygments' get_tokens_unprocessed offsets and token types are the trusted base",
               "lines are delimited by '\\n' only (as codelimit and the property's 1-based line/column define them)"]
BOUNDS = {"quick": dict(blen=5, n=28, sizes=dict(canon=6, cut_programs=1, cut_cases=1200, mutated_programs=2, mutations=25,
                                                 soups=400, corpus_cuts=4, corpus_mutations=1)),
          "thorough": dict(blen=6, n=112, sizes=dict(canon=60, cut_programs=6, cut_cases=6000, mutated_programs=12, mutations=80,
                                                    soups=20000, corpus_cuts=40, corpus_mutations=10))}
EXHAUSTIVE = {"quick": True, "thorough": True}
EXHAUSTIVE_SCOPE = {t: f"boundary family: all strings of length <= {b['blen']} over the 8-letter alphabet, per language and filter flag"
                    for t, b in BOUNDS.items()}
MINIMUM = {"quick": {"monitor.lex_contract": 200000}, "thorough": {"monitor.lex_contract": 1500000}}


def shards(tier, seed):
    b = BOUNDS[tier]
    per = b["n"] // len(canon.LANGS)
    return [{"language": lang, "part": i, "parts": per, "blen": b["blen"], "sizes": b["sizes"]}
            for lang in canon.LANGS for i in range(per)]


def boundary_alphabet(language):
    return ["a", " ", "\n", "\t", "(", '"', "#" if language == "Python" else "/", "é"]


class LexContract:
    def __init__(self, ctx):
        from codelimit.common import lexer_utils, source_utils

        self.ctx = ctx
        self.problems = None
        self.l2i = source_utils.location_to_index

        def positions_faithful(lexer, code, filter_comments, result):
            ctx.count("monitor.lex_contract")
            raw = list(lexer.get_tokens_unprocessed(code))
            self.problems = token_position_problems(code, result, filter_comments, raw, self.l2i)
            return not self.problems

        self.patch = Unpatch(lexer_utils, "lex", lambda f: ensure(f, positions_faithful, ID))

    def __enter__(self):
        self.patch.__enter__()
        self.lex = self.patch.wrapped
        return self

    def __exit__(self, *a):
        return self.patch.__exit__(*a)

    def run(self, language, text, cls):
        ctx = self.ctx
        lexer = pipeline.lexer_for(language)
        for flag in (False, True):
            ctx.eval()
            try:
                toks = self.lex(lexer, text, flag)
                if len(ctx.samples) < 3 and 3 <= len(toks) <= 8 and "\n" in text and not flag:
                    ctx.sample({"language": language, "text": text, "tokens": [[t.location.line, t.location.column, t.value] for t in toks]})
                if len(toks) >= 2:
                    ctx.count("cases.with_two_or_more_tokens")
                if any("\n" in t.value.rstrip("\n") for t in toks):
                    ctx.count("cases.with_multiline_token")
            except MonitorViolation:
                ctx.violation("lex_contract", {"language": language, "text": text, "filter_comments": flag},
                              {"class": cls, "problems": self.problems, "text": clip(text, 200)})
            except Exception as e:
                ctx.violation("lex_exception", {"language": language, "text": text, "filter_comments": flag},
                              {"class": cls, "error": f"{type(e).__name__}: {e}", "tb": short_tb(4)})


def run(shard, ctx):
    lang = shard["language"]
    rng = rng_for(shard["seed"], "c16", lang, shard["part"])
    with LexContract(ctx) as c:
        alpha = boundary_alphabet(lang)
        k = 0
        for n in range(0, shard["blen"] + 1):
            for s in itertools.product(alpha, repeat=n):
                k += 1
                if k % shard["parts"] != shard["part"]:
                    continue
                c.run(lang, "".join(s), "boundary")
                ctx.count("cases.boundary")
                ctx.count("distinct.counted_in_shard")
        # second exhaustive family: characters that other line-splitting conventions treat as line breaks
        exotic = ["a", "\n", "\x0c", "\r", "\u2028", "\x85", "\x0b", "("]
        for n in range(1, shard["blen"]):
            for s in itertools.product(exotic, repeat=n):
                k += 1
                if k % shard["parts"] != shard["part"]:
                    continue
                c.run(lang, "".join(s), "boundary_exotic_separators")
                ctx.count("cases.boundary_exotic_separators")
                ctx.count("distinct.counted_in_shard")
        # the union workload is split over the shards of this language by index
        j = 0
        for cls, text in texts(lang, rng_for(shard["seed"], "c16w", lang), shard["seed"], shard["sizes"]):
            j += 1
            if j % shard["parts"] != shard["part"]:
                continue
            c.run(lang, text, cls)
            ctx.count("cases." + cls)
            ctx.distinct([lang, text])
            if cls == "corpus":
                ctx.count("corpus.files")


def replay(case, ctx):
    with LexContract(ctx) as c:
        c.run(case["language"], case["text"], "replay")


LEVEL_TEXT = ("Every call of the real lex() made by the workload is checked by a post-condition that re-derives each token's "
              "offset from the text alone and compares the result with the raw lexer stream. The short-string family is "
              "exhaustive (all line/column boundary situations up to the bound); the rest is sampling of realistic and "
              "hostile texts. Right level: position arithmetic breaks on boundary cases that short strings enumerate.")
LEVEL_NOTE = "Trusted: Pygments offsets/types; the monitor's own 20-line offset arithmetic (binary search over line starts)."
