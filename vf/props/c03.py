"""C03 - analysis is total: no file content makes scan or check fail or hang.

Monitor shape: the real entry points are run on hostile inputs while monitors watch for the refuting events:
any exception other than typer.Exit(0|1), a traceback or an exit status outside {0,1} from the CLI subprocess,
a scan that leaves no parseable report, or more interpreter steps inside codelimit than the logical budget
(sys.monitoring step counter; wall clock is only a watchdog whose firing is inconclusive).
"""
from __future__ import annotations

import contextlib
import io
import json
import os
import shutil
import subprocess
import sys
import tempfile
from pathlib import Path

from vf import REPO, pipeline
from vf.common import BudgetExceeded, StepBudget, clip, rng_for, short_tb
from vf.gen import canon, hostile
from vf.workloads import texts

ID = "C03"
LEVEL = "exploration"
TECHNIQUE = ("fault/hostile-input injection at the real entry points (scan_file, scan_path, scan_command, check_command, "
             "CLI subprocess) with exception, exit-status, traceback and logical-step-budget monitors")
RULE = ("in-process cases = (language, text) from the union workload (every prefix/suffix of small canonical programs, line and "
        "token mutations, token soups, arrow soups, targeted shapes incl. 1500-deep nesting, corpus cuts) run through the real "
        "lex + scan_file under a step budget; tree cases = directories holding hostile byte contents (empty, NUL, Latin-1, "
        "invalid UTF-8, UTF-16, CRLF, binary, truncated programs) run through scan_path, scan_command and check_command "
        "with every way of naming the target; CLI cases = python -m codelimit scan|check as a subprocess; non-trivial = the "
        "input is not a well-formed canonical program (everything except class 'canonical' and 'corpus'); distinct = distinct "
        "(language, input) pairs")
ASSUMPTIONS = ["interpreter steps are counted inside codelimit only; time inside C code (regular expressions) is bounded separately for "
               "a family of pathological inputs by RLIMIT_CPU in a child process (CPU seconds, immune to load); elsewhere a hang inside C "
               "code fires the wall-clock watchdog and is reported as inconclusive",
               "the CLI is driven with positional arguments only (option parsing of typer 0.9.4 + click 8.5 in this image is broken, DESIGN section 2)"]
BOUNDS = {"quick": dict(n=28, sizes=dict(canon=4, cut_programs=2, cut_cases=2400, mutated_programs=5, mutations=40,
                                         soups=1400, corpus_cuts=5, corpus_mutations=2), trees=2, cli=1),
          "thorough": dict(n=112, sizes=dict(canon=40, cut_programs=30, cut_cases=8000, mutated_programs=100, mutations=120,
                                            soups=80000, corpus_cuts=60, corpus_mutations=20), trees=30, cli=6)}
MINIMUM = {"quick": {"monitor.scan_file_calls": 25000, "monitor.check_command_calls": 300, "monitor.scan_path_calls": 50,
                     "monitor.scan_command_calls": 50, "monitor.cli_runs": 40, "monitor.cpu_bounded_cases": 600},
           "thorough": {"monitor.scan_file_calls": 600000, "monitor.check_command_calls": 8000, "monitor.scan_path_calls": 1500,
                        "monitor.scan_command_calls": 1500, "monitor.cli_runs": 1000}}
PY = "/venv/bin/python"


def shards(tier, seed):
    b = BOUNDS[tier]
    per = b["n"] // len(canon.LANGS)
    return [{"language": lang, "part": i, "parts": per, "sizes": b["sizes"], "trees": b["trees"], "cli": b["cli"]}
            for lang in canon.LANGS for i in range(per)]


def budget_for(n_tokens):
    return max(5_000_000, 3000 * (n_tokens + 1))


class InProcess:
    def __init__(self, ctx):
        self.ctx = ctx
        self.steps = StepBudget()
        self.steps.install()

    def close(self):
        self.steps.uninstall()
        self.ctx.maxi("max.steps_in_one_call", self.steps.max_seen)

    def analyze(self, language, text, cls):
        from codelimit.common.Measurement import Measurement
        from codelimit.common.Scanner import scan_file
        from codelimit.common.lexer_utils import lex
        from codelimit.languages import Languages

        ctx = self.ctx
        ctx.eval()
        case = {"language": language, "text": text}
        n_tok = max(1, len(text) // 3)
        self.steps.start(budget_for(n_tok))
        try:
            tokens = lex(pipeline.lexer_for(language), text, False)
            ms = scan_file(tokens, Languages.by_name[language])
            ctx.count("monitor.scan_file_calls")
            if not isinstance(ms, list) or not all(isinstance(m, Measurement) for m in ms):
                ctx.violation("result_type", case, {"class": cls, "type": type(ms).__name__})
        except BudgetExceeded as e:
            ctx.violation("step_budget", case, {"class": cls, "error": str(e), "text": clip(text, 200)})
        except Exception as e:
            ctx.violation("exception", case, {"class": cls, "error": f"{type(e).__name__}: {e}", "tb": short_tb(6),
                                              "text": clip(text, 200)})
            ctx.count("exception." + type(e).__name__)
        finally:
            n = self.steps.stop()
            if len(text) > 50:
                ctx.maxi("max.steps_per_100_chars", int(100 * n / len(text)))
        if cls not in ("canonical", "corpus"):
            ctx.distinct([language, text])
            if cls in ("soup", "targeted", "token_mutation", "arrow_soup") and len(ctx.samples) < 3 and 10 < len(text) < 200:
                ctx.sample({"language": language, "class": cls, "input": text, "outcome": "list of measurements, no exception"})


# ------------------------------------------------------------------------------------------------
# trees
# ------------------------------------------------------------------------------------------------
def make_tree(root, files):
    for rel, data in files.items():
        p = os.path.join(root, rel)
        os.makedirs(os.path.dirname(p), exist_ok=True)
        with open(p, "wb") as f:
            f.write(data)


def hostile_tree_files(lang, rng, seed):
    """{relative path: bytes}: byte-level hostile contents + truncated canonical programs"""
    ext = canon.EXT[lang]
    base = hostile.corpus_bytes(lang)[rng.randrange(len(hostile.corpus_bytes(lang)))][1]
    cases = hostile.raw_byte_cases(lang, base)
    rng.shuffle(cases)
    files = {}
    for i, (name, data) in enumerate(cases[: rng.randint(2, 6)]):
        files[rng.choice(["", "src/", "src/deep/er/", "lib/"]) + f"{name}{i}{ext}"] = data
    prog = canon.generate(lang, f"{seed}:tree").text
    cut = rng.randrange(len(prog))
    files["src/truncated" + ext] = prog[:cut].encode()
    files["src/tail" + ext] = prog[cut:].encode()
    if rng.random() < 0.5:
        files["long" + ext] = canon.file_with_functions(lang, [rng.choice([35, 61, 70])]).encode()
    t = hostile.targeted(lang)
    files["src/targeted" + ext] = t[rng.randrange(len(t))].encode("utf-8", "replace")
    # interactions between the functions of ONE file: equal names, equal lengths, equal names and lengths (overloads, same-named
    # methods of two classes, copy-pasted duplicates), around and above the reporting thresholds
    n = rng.choice([31, 35, 61, 70])
    one = canon.exact_length_function(lang, n, "twice", indent=4 if lang in ("Java", "C#") else 0)
    other = canon.exact_length_function(lang, n, "other", indent=4 if lang in ("Java", "C#") else 0)
    parts = rng.choice([[one, one], [one, one, one], [one, other, one], [one, canon.exact_length_function(lang, n + 1, "twice", indent=4 if lang in ("Java", "C#") else 0)]])
    body = "\n".join(parts)
    files["src/duplicates" + ext] = (("public class Holder {\n" + body + "}\n") if lang in ("Java", "C#") else body).encode()
    return files


def run_check_command(ctx, paths, cwd, case, cls):
    """check_command must end with typer.Exit(0|1) and nothing else"""
    import typer
    from codelimit.commands.check import check_command
    from codelimit.common.Configuration import Configuration

    old = os.getcwd()
    os.chdir(cwd)
    Configuration.exclude = []
    buf = io.StringIO()
    ctx.eval()
    try:
        with contextlib.redirect_stdout(buf), contextlib.redirect_stderr(buf):
            check_command([Path(p) for p in paths], False)
        ctx.violation("check_returned_without_exit", case, {"class": cls, "paths": paths})
    except typer.Exit as e:
        ctx.count("monitor.check_command_calls")
        if e.exit_code not in (0, 1):
            ctx.violation("check_exit_status", case, {"class": cls, "paths": paths, "exit_code": e.exit_code})
    except BaseException as e:
        ctx.count("monitor.check_command_calls")
        ctx.count("exception." + type(e).__name__)
        ctx.violation("check_exception", case, {"class": cls, "paths": paths, "cwd_is_root": cwd == case.get("root"),
                                                "error": f"{type(e).__name__}: {e}", "tb": short_tb(6)})
    finally:
        os.chdir(old)


def run_scans(ctx, root, case, cls):
    from codelimit.commands.scan import scan_command
    from codelimit.common.Configuration import Configuration
    from codelimit.common.Scanner import scan_path

    Configuration.exclude = []
    Configuration.repository = None
    ctx.eval()
    try:
        cb = scan_path(Path(root))
        ctx.count("monitor.scan_path_calls")
        ctx.count("files.analysed_in_trees", len(cb.files))
    except BaseException as e:
        ctx.count("exception." + type(e).__name__)
        ctx.violation("scan_path_exception", case, {"class": cls, "error": f"{type(e).__name__}: {e}", "tb": short_tb(6)})
    buf = io.StringIO()
    ctx.eval()
    try:
        with contextlib.redirect_stdout(buf), contextlib.redirect_stderr(buf):
            scan_command(Path(root))
        ctx.count("monitor.scan_command_calls")
        rp = os.path.join(root, ".codelimit_cache", "codelimit.json")
        if not os.path.exists(rp):
            ctx.violation("scan_left_no_report", case, {"class": cls})
        else:
            try:
                json.loads(open(rp).read())
                ctx.count("monitor.reports_parsed")
            except Exception as e:
                # validity of the document for hostile *names* is C08's property; file contents cannot reach the document
                ctx.violation("scan_report_unparseable", case, {"class": cls, "error": str(e)[:200]})
    except BaseException as e:
        ctx.count("exception." + type(e).__name__)
        ctx.violation("scan_command_exception", case, {"class": cls, "error": f"{type(e).__name__}: {e}", "tb": short_tb(6)})


def tree_cases(ctx, lang, rng, seed, n, part=0, parts=1):
    for i in range(n):
        files = hostile_tree_files(lang, rng, f"{seed}:{i}")
        if i == 0:
            # every declared-encoding case once per language, spread over the shards of the language
            ext = canon.EXT[lang]
            for j, (name, data) in enumerate(hostile.declared_encoding_cases(lang)):
                if j % parts == part:
                    files[f"enc/{name.replace('-', '_')}{ext}"] = data
                    ctx.count("cases.declared_encoding_files")
        root = tempfile.mkdtemp(prefix="vf-c03-")
        outside = tempfile.mkdtemp(prefix="vf-c03-out-")
        try:
            real_root = os.path.realpath(root)
            make_tree(real_root, files)
            make_tree(os.path.realpath(outside), {"o/" + k: v for k, v in list(files.items())[:3]})
            case = {"language": lang, "files": {k: v.decode("latin-1") for k, v in files.items()}, "root": real_root}
            run_scans(ctx, real_root, case, "tree")
            shutil.rmtree(os.path.join(real_root, ".codelimit_cache"), ignore_errors=True)
            rels = sorted(files)
            ways = []
            for rel in rels:
                ways.append(([rel], real_root, "relative_file"))
                ways.append(([os.path.join(real_root, rel)], real_root, "absolute_file"))
            ways.append((["src"], real_root, "relative_dir"))
            ways.append(([os.path.join("src", "..", "src")], real_root, "dotdot_dir"))
            ways.append((["."], real_root, "root_dir"))
            ways.append(([real_root], real_root, "absolute_dir"))
            ways.append(([real_root], os.path.realpath(outside), "dir_outside_cwd"))
            ways.append(([os.path.join(real_root, rels[0])], os.path.realpath(outside), "file_outside_cwd"))
            ways.append(([os.path.relpath(real_root, os.path.realpath(outside))], os.path.realpath(outside), "relative_dir_outside_cwd"))
            ways.append((rels[:3] + ["src"], real_root, "several_paths"))
            for paths, cwd, way in ways:
                ctx.count("ways." + way)
                run_check_command(ctx, paths, cwd, dict(case, paths=paths, cwd=("root" if cwd == real_root else "outside")), way)
        finally:
            shutil.rmtree(root, ignore_errors=True)
            shutil.rmtree(outside, ignore_errors=True)


def cli(args, cwd):
    env = dict(os.environ)
    env["PYTHONPATH"] = REPO
    env["COLUMNS"] = "200"
    env.pop("VF_SHARD_WATCHDOG", None)
    try:
        p = subprocess.run([PY, "-m", "codelimit"] + args, cwd=cwd, env=env, stdout=subprocess.PIPE, stderr=subprocess.PIPE, timeout=300)
    except subprocess.TimeoutExpired:
        return None, "", ""
    return p.returncode, p.stdout.decode("utf-8", "replace"), p.stderr.decode("utf-8", "replace")


def cli_cases(ctx, lang, rng, seed, n):
    for i in range(n):
        files = hostile_tree_files(lang, rng, f"{seed}:cli{i}")
        root = os.path.realpath(tempfile.mkdtemp(prefix="vf-c03-cli-"))
        outside = os.path.realpath(tempfile.mkdtemp(prefix="vf-c03-cliout-"))
        try:
            make_tree(root, files)
            rels = sorted(files)
            case = {"language": lang, "files": {k: v.decode("latin-1") for k, v in files.items()}, "cli": True}
            runs = [(["scan", "."], root), (["scan", root], outside), (["check", "."], root), (["check", root], outside),
                    (["check"] + rels[:4], root), (["check", os.path.join(root, rels[0])], outside), (["check", "src"], root)]
            for args, cwd in runs:
                ctx.eval()
                rc, out, err = cli(args, cwd)
                ctx.count("monitor.cli_runs")
                if rc is None:
                    ctx.inconclusive.append(f"CLI run {args} exceeded the wall-clock watchdog")
                    continue
                if rc not in (0, 1) or "Traceback (most recent call last)" in out + err:
                    ctx.violation("cli_failure", dict(case, args=args, cwd=("root" if cwd == root else "outside")),
                                  {"args": args, "exit_status": rc, "stderr_tail": err[-600:], "stdout_tail": out[-300:]})
                if args[0] == "scan":
                    rp = os.path.join(root, ".codelimit_cache", "codelimit.json")
                    try:
                        json.loads(open(rp).read())
                        ctx.count("monitor.cli_reports_parsed")
                    except Exception as e:
                        ctx.violation("cli_scan_left_no_valid_report", dict(case, args=args), {"error": str(e)[:200]})
        finally:
            shutil.rmtree(root, ignore_errors=True)
            shutil.rmtree(outside, ignore_errors=True)


def pathological_texts(lang, rng):
    """inputs aimed at super-linear behaviour inside C code (regular expressions, str methods): long runs of one character or of
    comment leaders, banner comments, long runs of whitespace, quotes, brackets, and almost-markers"""
    lead = "#" if lang == "Python" else "//"
    fn = "def f(a):\n    return a\n" if lang == "Python" else "int f(int a) {\n  return a;\n}\n"
    out = []
    for n in (30, 90, 700):
        banners = [lead[0] * n, lead * n, "/" + "*" * n + "/", "/*" + "*" * n, "/* " + "* " * n + "*/", lead + " " + "-" * n, lead + "=" * n + " nocl",
                   lead + " " + "nocl " * n, lead + " " * n + "nocl", lead + "#" * n + "!" * n, ";" * n, lead + ("/*" * n), lead + " n" + "o" * n + "cl",
                   "/*" + "/" * n + "*/", "*" * n, "/**" + "/" * n, lead + "\t" * n + "x"]
        if lang == "Python":
            banners = [b for b in banners if not b.startswith(("/", "*", ";"))] + ["#" * n + " nocl", "# " + "#" * n, "'" * n, '"' * n, "#" + " #" * n]
        for b in banners:
            out.append(b + "\n" + fn)
            out.append(fn + b + "\n" + fn)
        out += [fn + " " * (n * 10) + "\n" + fn, "(" * n + fn, fn.replace("f(", "f" + "(" * 3, 1) * (n // 30 + 1), "a" * (n * 20) + "\n" + fn,
                fn + "\\\n" * n, ("x = '" + "\\" * n + "'\n" if lang == "Python" else 'char *s = "' + "\\" * n + '";\n') + fn]
    rng.shuffle(out)
    return out


def cpu_bounded(ctx, lang, rng, cpu_seconds=40):
    """termination of the analysis decided in CPU seconds enforced by the kernel (see vf/cpucase.py); a batch of small inputs
    normally needs well under one CPU second"""
    cases = [(lang, t) for t in pathological_texts(lang, rng)]
    pos = 0
    guard = 0
    while pos < len(cases) and guard < 6:
        guard += 1
        batch = cases[pos:]
        env = dict(os.environ, PYTHONPATH=os.pathsep.join([os.path.dirname(os.path.dirname(os.path.abspath(__file__))), REPO]))
        try:
            p = subprocess.run([PY, "-m", "vf.cpucase", str(cpu_seconds)], input=json.dumps(batch).encode(), stdout=subprocess.PIPE,
                               stderr=subprocess.PIPE, env=env, timeout=1200)
        except subprocess.TimeoutExpired:
            ctx.inconclusive.append("CPU-bounded child exceeded the wall-clock watchdog (machine overloaded?)")
            return
        lines = p.stdout.decode().split("\n")
        done = sum(1 for ln in lines if ln.startswith("DONE"))
        ctx.count("monitor.cpu_bounded_cases", done)
        ctx.eval(done)
        if "ALL" in lines:
            return
        started = [int(ln.split()[1]) for ln in lines if ln.startswith("START")]
        if p.returncode < 0 and started and len(started) > done:
            lang_, text = batch[started[-1]]
            ctx.violation("cpu_budget", {"language": lang_, "text": text, "cpu_bounded": True},
                          {"error": f"analysis of a {len(text)}-character input consumed more than {cpu_seconds} CPU-seconds "
                                    f"(child ended by signal {-p.returncode})", "text": clip(text, 160)})
            pos += started[-1] + 1
            continue
        ctx.inconclusive.append(f"CPU-bounded child ended unexpectedly rc={p.returncode}: {p.stderr.decode('utf-8', 'replace')[-300:]}")
        return


def run(shard, ctx):
    lang = shard["language"]
    if shard["part"] == 0:
        cpu_bounded(ctx, lang, rng_for(shard["seed"], "c03cpu", lang))
    ip = InProcess(ctx)
    try:
        j = 0
        for cls, text in texts(lang, rng_for(shard["seed"], "c03w", lang), shard["seed"], shard["sizes"]):
            j += 1
            if j % shard["parts"] != shard["part"]:
                continue
            ip.analyze(lang, text, cls)
            ctx.count("cases." + cls)
    finally:
        ip.close()
    rng = rng_for(shard["seed"], "c03t", lang, shard["part"])
    tree_cases(ctx, lang, rng, f"{shard['seed']}:{shard['part']}", shard["trees"], shard["part"], shard["parts"])
    cli_cases(ctx, lang, rng, f"{shard['seed']}:{shard['part']}", shard["cli"])
    if shard["part"] == 0:
        import click
        import typer
        ctx.notes.append(f"typer {typer.__version__}, click {getattr(click, '__version__', '?')}: CLI driven with positional arguments only")
        ctx.sample({"language": lang, "ways_of_naming": ["relative_file", "absolute_file", "relative_dir", "dotdot_dir", "root_dir",
                                                          "absolute_dir", "dir_outside_cwd", "file_outside_cwd", "several_paths"],
                    "byte_level_contents": [n for n, _ in hostile.raw_byte_cases(lang, b"x")]})


def replay(case, ctx):
    lang = case["language"]
    if case.get("cpu_bounded"):
        env = dict(os.environ, PYTHONPATH=os.pathsep.join([os.path.dirname(os.path.dirname(os.path.abspath(__file__))), REPO]))
        p = subprocess.run([PY, "-m", "vf.cpucase", "40"], input=json.dumps([[lang, case["text"]]]).encode(), stdout=subprocess.PIPE,
                           stderr=subprocess.PIPE, env=env, timeout=1200)
        ctx.eval()
        if b"ALL" not in p.stdout:
            ctx.violation("cpu_budget", case, {"error": f"child ended rc={p.returncode} before finishing"})
        return
    if "text" in case:
        ip = InProcess(ctx)
        try:
            ip.analyze(lang, case["text"], "replay")
        finally:
            ip.close()
        return
    files = {k: v.encode("latin-1") for k, v in case["files"].items()}
    root = os.path.realpath(tempfile.mkdtemp(prefix="vf-c03-r-"))
    outside = os.path.realpath(tempfile.mkdtemp(prefix="vf-c03-ro-"))
    try:
        make_tree(root, files)
        if case.get("cli"):
            args = [a.replace(case.get("root", "\0"), root) for a in case.get("args", ["check", "."])]
            cwd = root if case.get("cwd", "root") == "root" else outside
            rc, out, err = cli(args, cwd)
            ctx.eval()
            if rc not in (0, 1) or "Traceback (most recent call last)" in out + err:
                ctx.violation("cli_failure", case, {"exit_status": rc, "stderr_tail": err[-600:]})
            return
        old_root = case.get("root", "")
        if "paths" in case:
            paths = [p.replace(old_root, root) if old_root else p for p in case["paths"]]
            cwd = root if case.get("cwd", "root") == "root" else outside
            if case.get("cwd") == "outside":
                paths = [p if os.path.isabs(p) else os.path.relpath(root, outside) for p in paths]
            run_check_command(ctx, paths, cwd, dict(case, root=root), "replay")
        else:
            run_scans(ctx, root, dict(case, root=root), "replay")
    finally:
        shutil.rmtree(root, ignore_errors=True)
        shutil.rmtree(outside, ignore_errors=True)


LEVEL_TEXT = ("The real entry points are executed on tens of thousands of truncated, mutated, random and byte-level hostile "
              "inputs per language and on every way of naming a target, under monitors for exceptions, exit status, "
              "tracebacks and a logical step budget. Exploration with fault injection on the input side; the right level for a "
              "totality property whose counterexamples are single malformed inputs.")
LEVEL_NOTE = ("Trusted: CPython's sys.monitoring counter; Pygments (a hang inside its C regex engine would be inconclusive). "
              "CLI option parsing of this image is broken and not exercised.")
