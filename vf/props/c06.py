"""C06 - analysis is deterministic, order-independent and isolated per file.

Monitor shape: differential monitor over recorded executions. Each worker is a fresh process with its own
PYTHONHASHSEED and its own permutation of one fixed case list (canonical programs, real-world files, hostile inputs,
engine-level patterns that abort matching midway); it analyses every case with the real lex + scan_file (also twice in
a row, and after a random prefix of other cases) and emits {case -> digest(result | exception class)}. The coordinator
requires all maps to be equal. Tree level: os.walk is wrapped to permute directory listings, and the reports of repeated
scan_path / scan_command runs are compared modulo identifier, timestamp and listing order.
"""
from __future__ import annotations

import hashlib
import json
import os
import shutil
import tempfile
from pathlib import Path

from vf import pipeline
from vf.cachelab import canon_doc, fresh_doc, read_cache, run_scan_command
from vf.common import rng_for, short_tb
from vf.gen import canon, hostile

ID = "C06"
LEVEL = "exploration"
TECHNIQUE = ("differential monitor across fresh processes with different PYTHONHASHSEED values and different analysis orders "
             "(digest per case), in-process repetition and prefix-independence checks, os.walk order permutation for tree scans, "
             "report comparison modulo uuid/timestamp/order")
RULE = ("one fixed list of cases (canonical programs, all corpus files, soups/targeted/mutated inputs in 7 languages, engine patterns "
        "with overlapping predicates); each worker = (hash seed, permutation) analyses all of them; a case is non-trivial when its "
        "result has at least one measurement or is an exception; distinct = distinct (case, hash seed, order) executions whose "
        "digests were compared")
ASSUMPTIONS = ["equality of blake2 digests of the JSON-serialised results is equality of results",
               "two scans of one tree may differ in uuid, timestamp and listing order only (as the property states)"]
BOUNDS = {"quick": dict(seeds=["0", "1", "2", "3", "r"], orders=3, canon=8, hostile=40, trees=3, walk_perms=5),
          "thorough": dict(seeds=[str(i) for i in range(31)] + ["r"], orders=4, canon=30, hostile=200, trees=12, walk_perms=30)}
MINIMUM = {"quick": {"monitor.digests_compared": 5000, "monitor.tree_reports_compared": 80, "monitor.repeat_checks": 1000, "monitor.isolation_checks": 300},
           "thorough": {"monitor.digests_compared": 200000, "monitor.tree_reports_compared": 2000, "monitor.repeat_checks": 30000}}


def shards(tier, seed):
    b = BOUNDS[tier]
    out = []
    for s in b["seeds"]:
        hs = str((seed * 7919 + 104729) % 4294967295) if s == "r" else s
        for o in range(b["orders"]):
            out.append({"hashseed": hs, "order": o, "env": {"PYTHONHASHSEED": hs}, "canon": b["canon"], "hostile": b["hostile"],
                        "trees": b["trees"], "orders": b["orders"], "walk_perms": b["walk_perms"]})
    return out


def case_list(seed, n_canon, n_hostile):
    """deterministic in `seed` only (NOT in the hash seed or the order)"""
    cases = []
    for lang in canon.LANGS:
        for i in range(n_canon):
            cases.append((f"{lang}:canon:{i}", lang, canon.generate(lang, f"{seed}:c06:{i}").text))
        for name, text in hostile.corpus(lang):
            cases.append((f"{lang}:corpus:{name}", lang, text))
        # near-twins: same length, same number of tokens, same first token, same everything a coarse memo key could look at, but a
        # different result (one function renamed / one line moved from one function to the next)
        trng = rng_for(seed, "c06twins", lang)
        for i in range(max(4, n_canon // 2)):
            lens = [trng.randint(3, 9) for _ in range(3)]
            a = canon.file_with_functions(lang, [max(2, x) for x in lens], prefix="tw")
            b = a.replace("tw1(", "wt1(", 1)
            lens2 = [lens[0] + 1, max(2, lens[1] - 1), lens[2]]
            c = canon.file_with_functions(lang, [max(2, x) for x in lens2], prefix="tw")
            for tag, text in (("a", a), ("b", b), ("c", c)):
                cases.append((f"{lang}:twin:{i}:{tag}", lang, text))
        rng = rng_for(seed, "c06h", lang)
        for i in range(n_hostile):
            k = i % 4
            if k == 0:
                cases.append((f"{lang}:soup:{i}", lang, hostile.soup(lang, rng)))
            elif k == 1:
                t = hostile.targeted(lang)
                cases.append((f"{lang}:targeted:{i}", lang, t[i % len(t)][:4000]))
            elif k == 2:
                p = canon.generate(lang, f"{seed}:c06m:{i}", None, target_functions=2).text
                cases.append((f"{lang}:prefix:{i}", lang, p[: rng.randrange(len(p))]))
            else:
                p = canon.generate(lang, f"{seed}:c06l:{i}", None, target_functions=2).text
                cases.append((f"{lang}:mutated:{i}", lang, next(hostile.line_mutations(p, rng, 1))[2]))
    return cases


def digest_of(language, text):
    try:
        _, ms = pipeline.analyze(language, text)
        payload = json.dumps(pipeline.measurements_as_lists(ms))
        nontrivial = bool(ms)
    except Exception as e:
        payload = "EXC:" + type(e).__name__
        nontrivial = True
    return hashlib.blake2b(payload.encode(), digest_size=8).hexdigest(), nontrivial


def engine_cases():
    """engine-level patterns with overlapping predicates (as in tests/common/gsm): results must not depend on set order"""
    from codelimit.common.gsm.matcher import find_all, match, starts_with
    from codelimit.common.gsm.operator.OneOrMore import OneOrMore
    from codelimit.common.gsm.operator.Optional import Optional
    from codelimit.common.gsm.operator.Union import Union
    from codelimit.common.gsm.operator.ZeroOrMore import ZeroOrMore

    out = {}
    exprs = {
        "a(b|c)+": ["a", OneOrMore(Union("b", "c"))],
        "(ab|ac)": [Union(["a", "b"], ["a", "c"])],
        "a?b*c": [Optional("a"), ZeroOrMore("b"), "c"],
        "(a|b)(a|c)": [Union("a", "b"), Union("a", "c")],
        "((a|b)*abb)": [ZeroOrMore(Union("a", "b")), "a", "b", "b"],
    }
    seqs = ["abcbc", "acab", "bbc", "aac", "ababb", "abbabb", "cab", ""]
    for name, e in exprs.items():
        for s in seqs:
            for fn in (match, starts_with, find_all):
                try:
                    r = fn(e, list(s))
                    if r is None:
                        v = None
                    elif isinstance(r, list):
                        v = [[p.start, p.end] for p in r]
                    else:
                        v = [r.start, r.end]
                except Exception as ex:
                    v = "EXC:" + type(ex).__name__
                out[f"engine:{name}:{s}:{fn.__name__}"] = json.dumps(v)
    return out


class WalkPermuter:
    """os.walk wrapped from the harness: directory and file listings are shuffled (traversal order of a file system is arbitrary)"""

    def __init__(self, rng):
        self.rng = rng
        self.orig = os.walk

    def __enter__(self):
        orig, rng = self.orig, self.rng

        def walk(top, *a, **kw):
            for root, dirs, files in orig(top, *a, **kw):
                rng.shuffle(dirs)
                rng.shuffle(files)
                yield root, dirs, files

        os.walk = walk
        return self

    def __exit__(self, *a):
        os.walk = self.orig
        return False


def tree_checks(ctx, shard):
    rng = rng_for(shard["seed"], "c06t")  # same trees in every worker
    for ti in range(shard["trees"]):
        # every worker builds the same trees (rng depends on the seed only) but each tree is exercised by one order per hash seed
        skip = ti % shard["orders"] != shard["order"]
        root = os.path.realpath(tempfile.mkdtemp(prefix="vf-c06-"))
        try:
            n = 0
            for lang in canon.LANGS:
                files = hostile.corpus_bytes(lang)
                for k in range(3):
                    name, data = files[rng.randrange(len(files))]
                    rel = os.path.join(rng.choice(["", "src", "src/a", "lib/x/y", "z"]), f"f{n}{canon.EXT[lang]}")
                    n += 1
                    p = os.path.join(root, rel)
                    os.makedirs(os.path.dirname(p), exist_ok=True)
                    with open(p, "wb") as f:
                        f.write(data[: rng.randrange(2000, 30000)] if rng.random() < 0.3 else data)
            # byte-identical files under names that map to different languages, with content the languages measure differently
            # (C filters nested candidates, C++ reports them; TypeScript accepts ':' after a parameter list, JavaScript does not)
            twins = [("native/queue.h", "compat/queue.hpp", b"void run(struct q *q) {\n  QUEUE_FOREACH(it, q) {\n    use(it);\n  }\n  done(q);\n}\n"),
                     ("lib/pick.js", "lib/pick.ts", b"function pick(c, a) {\n  return c ? run(a) : {\n    x: 1\n  };\n}\n"),
                     ("a/same.c", "b/same.cc", b"int twice(int a) {\n  WITH_LOCK(m) {\n    a = a * 2;\n  }\n  return a;\n}\n")]
            if skip:
                rng.random(), rng.random(), rng.random()
                continue
            for a, b, data in twins:
                order_ab = rng.random() < 0.5
                for rel in ((a, b) if order_ab else (b, a)):
                    p = os.path.join(root, rel)
                    os.makedirs(os.path.dirname(p), exist_ok=True)
                    with open(p, "wb") as f:
                        f.write(data)
            # exclusion patterns whose ORDER matters (gitignore is last-match-wins): duplicates of built-in names plus a negation
            for rel, data in (("vendor/kept.py", b"def kept(a):\n    return a\n"), ("vendor/dropped.py", b"def dropped(a):\n    return a\n"),
                              ("gen/out/keep.js", b"function keep(a) {\n  return a;\n}\n"), ("gen/out/skip.js", b"function skip(a) {\n  return a;\n}\n")):
                p = os.path.join(root, rel)
                os.makedirs(os.path.dirname(p), exist_ok=True)
                with open(p, "wb") as f:
                    f.write(data)
            # decoding must not depend on what was read before: a Latin-1 file (not valid UTF-8) next to UTF-8 files whose non-ASCII
            # characters sit in identifiers and on the last line of a function, in directories that are walked before and after it
            for d in ("aa_first", "zz_last"):
                for rel, data in ((f"{d}/latin.py", "# caf\xe9\ndef plain(a):\n    return a  # \xfc\n".encode("latin-1")),
                                  (f"{d}/utf8.py", "def gr\u00f6\u00dfe(a):\n    return a\n\n\ndef greet(n):\n    return n + 'gr\u00fc\u00df dich \u00e4\u00f6\u00fc'\n".encode("utf-8")),
                                  (f"{d}/utf8.js", "function gr\u00fc\u00dfen(a) {\n  return a + '\u00e9\u00e8';\n}\n".encode("utf-8"))):
                    p = os.path.join(root, rel)
                    os.makedirs(os.path.dirname(p), exist_ok=True)
                    with open(p, "wb") as f:
                        f.write(data)
            with open(os.path.join(root, ".gitignore"), "w") as f:
                f.write("build\ndist\nvendor/*\n!vendor/kept.py\ngen/**\n!gen/out/\n!gen/out/keep.js\n*.tmp\nnode_modules\n!*.py\nvendor/dropped.py\n")
            base = canon_doc(fresh_doc(root))
            # isolation: what a tree scan reports for a file equals what the file yields when analysed alone
            from vf.model import select as S
            for rel, entry in base["files"].items():
                lang = S.language_of(os.path.basename(rel))
                with open(os.path.join(root, rel), "rb") as f:
                    text = hostile.decode(f.read())
                try:
                    _, ms = pipeline.analyze(lang, text)
                    alone = [[m.unit_name, m.start.line, m.start.column, m.end.line, m.end.column, m.value] for m in ms]
                except Exception as e:
                    alone = "EXC:" + type(e).__name__
                in_tree = [[m["unit_name"], m["start"]["line"], m["start"]["column"], m["end"]["line"], m["end"]["column"], m["value"]]
                           for m in entry["measurements"]]
                ctx.count("monitor.isolation_checks")
                if alone != in_tree or entry["language"] != lang:
                    ctx.violation("file_result_depends_on_other_files", {"tree": ti, "file": rel},
                                  {"file": rel, "language": lang, "alone": alone if isinstance(alone, str) else alone[:4], "in_tree_scan": in_tree[:4],
                                   "language_in_tree": entry["language"]})
            ctx.extra.setdefault("tree_digests", {})[f"tree{ti}"] = hashlib.blake2b(
                json.dumps(base, sort_keys=True).replace(root, "<root>").encode(), digest_size=8).hexdigest()
            prng = rng_for(shard["seed"], "c06p", shard["hashseed"], ti)
            for j in range(shard["walk_perms"]):
                ctx.eval()
                with WalkPermuter(prng):
                    doc = canon_doc(fresh_doc(root))
                ctx.count("monitor.tree_reports_compared")
                if doc != base:
                    field = next((k for k in base if base[k] != doc.get(k)), None)
                    ctx.violation("walk_order_changes_report", {"tree": ti, "hashseed": shard["hashseed"]},
                                  {"differs_in": field, "permutation": j})
                    break
            # two scan_command runs (second one cache-assisted) differ at most in uuid/timestamp/order
            err, _ = run_scan_command(root)
            d1 = read_cache(root)
            with WalkPermuter(prng):
                err2, _ = run_scan_command(root)
            d2 = read_cache(root)
            ctx.count("monitor.tree_reports_compared")
            if err or err2:
                ctx.violation("scan_command_raised", {"tree": ti}, {"error": repr(err or err2)})
            elif canon_doc(d1) != canon_doc(d2) or canon_doc(d1) != base:
                ctx.violation("repeated_scan_differs", {"tree": ti, "hashseed": shard["hashseed"]},
                              {"first_vs_second": canon_doc(d1) != canon_doc(d2), "first_vs_fresh": canon_doc(d1) != base})
        finally:
            shutil.rmtree(root, ignore_errors=True)


def run(shard, ctx):
    cases = case_list(shard["seed"], shard["canon"], shard["hostile"])
    order = list(range(len(cases)))
    rng_for(shard["seed"], "c06o", shard["hashseed"], shard["order"]).shuffle(order)
    digests = {}
    rrng = rng_for(shard["seed"], "c06r", shard["hashseed"], shard["order"])
    for pos, idx in enumerate(order):
        cid, lang, text = cases[idx]
        ctx.eval()
        d, nontrivial = digest_of(lang, text)
        digests[cid] = d
        if nontrivial:
            ctx.distinct([cid, shard["hashseed"], shard["order"]])
        if rrng.random() < 0.25:
            # immediately again, and again after an unrelated case: isolation within one process
            d2, _ = digest_of(lang, text)
            o_cid, o_lang, o_text = cases[order[rrng.randrange(len(order))]]
            digest_of(o_lang, o_text[:3000])
            d3, _ = digest_of(lang, text)
            ctx.count("monitor.repeat_checks", 2)
            if d2 != d or d3 != d:
                ctx.violation("result_changes_on_repetition", {"case": cid, "language": lang, "text": text},
                              {"first": d, "again": d2, "after_other_case": d3, "other": o_cid})
    for k, v in engine_cases().items():
        digests[k] = hashlib.blake2b(v.encode(), digest_size=8).hexdigest()
    ctx.extra["digests"] = digests
    ctx.extra["params"] = {"hashseed": shard["hashseed"], "order": shard["order"], "PYTHONHASHSEED_in_process": os.environ.get("PYTHONHASHSEED")}
    ctx.count("cases.analysed", len(order))
    if shard["trees"]:
        tree_checks(ctx, shard)
    if shard["order"] == 0 and shard["hashseed"] == "0":
        ctx.sample({"case_ids": [c[0] for c in cases[:3]] + [c[0] for c in cases[-3:]], "n_cases": len(cases),
                    "workers": "one fresh process per (PYTHONHASHSEED, order)"})


def post(results, agg):
    """coordinator: all workers must report the same digest for every case"""
    maps = [(r.get("extra", {}).get("params"), r.get("extra", {}).get("digests"), r.get("extra", {}).get("tree_digests", {}))
            for r in results if r.get("extra", {}).get("digests")]
    if len(maps) < 2:
        agg["inconclusive"].append(f"only {len(maps)} worker(s) delivered digests; nothing to compare")
        return
    ref_params, ref, ref_trees = maps[0]
    compared = 0
    seeds = set()
    for params, d, trees in maps:
        seeds.add(params["hashseed"])
        if params["PYTHONHASHSEED_in_process"] != params["hashseed"]:
            agg["inconclusive"].append(f"worker did not run under the requested hash seed: {params}")
    for params, d, trees in maps[1:]:
        if set(d) != set(ref):
            agg["inconclusive"].append("workers analysed different case lists (harness problem)")
            continue
        for cid in ref:
            compared += 1
            if d[cid] != ref[cid]:
                agg["violations"].append({"kind": "result_depends_on_hash_seed_or_order", "mechanism": None,
                                          "case": {"case": cid, "a": ref_params, "b": params},
                                          "detail": {"case": cid, "worker_a": ref_params, "digest_a": ref[cid], "worker_b": params, "digest_b": d[cid]}})
                agg["violation_total"] += 1
        for t in ref_trees:
            if t in trees:
                compared += 1
                if trees[t] != ref_trees[t]:
                    agg["violations"].append({"kind": "tree_report_depends_on_hash_seed", "mechanism": None,
                                              "case": {"tree": t, "a": ref_params, "b": params},
                                              "detail": {"tree": t, "worker_a": ref_params, "worker_b": params}})
                    agg["violation_total"] += 1
    agg["counters"]["monitor.digests_compared"] = compared
    agg["counters"]["workers"] = len(maps)
    agg["counters"]["distinct_hash_seeds"] = len(seeds)
    agg["violations"] = agg["violations"][:60]


def replay(case, ctx):
    if "text" in case:
        d1, _ = digest_of(case["language"], case["text"])
        d2, _ = digest_of(case["language"], case["text"])
        ctx.eval()
        if d1 != d2:
            ctx.violation("result_changes_on_repetition", case, {"first": d1, "again": d2})
        return
    ctx.inconclusive.append("cross-process witnesses are replayed by re-running the check (VERIF_SEED as recorded): ./check C06 quick")


LEVEL_TEXT = ("The same ~1000-3000 inputs are analysed in several fresh processes that differ only in PYTHONHASHSEED and in the order of "
              "analysis, and the per-input result digests must coincide; within a process every fourth input is re-analysed immediately "
              "and after an unrelated input; tree scans are repeated under shuffled directory listings and through the cache. "
              "Exploration over schedules/configurations; right level because nondeterminism here can only come from hash order, "
              "traversal order or state leaking between files, and each of these is varied directly.")
LEVEL_NOTE = "Trusted: digest equality; the runner really starts each worker with the requested PYTHONHASHSEED (checked in post)."
