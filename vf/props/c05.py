"""C05 - every reported measurement is well-formed, for every input.

Monitor shape: contracts (icontract ensure) on the real Scanner.scan_file and Scanner._analyze_file, installed with
patch_everywhere. The post-condition is a pure invariant over (input text, tokens, result); it is evaluated on the
union workload (canonical, hostile and real-world texts), so no expected output is needed.
"""
from __future__ import annotations

import os
import shutil
import tempfile
from pathlib import Path

from vf import MonitorViolation, pipeline
from vf.common import Unpatch, clip, ensure, rng_for, short_tb
from vf.gen import canon, hostile
from vf.monitors import measurement_problems
from vf.workloads import texts

ID = "C05"
LEVEL = "exploration"
TECHNIQUE = ("runtime contracts (icontract ensure) on the real scan_file and _analyze_file: span/position/name/length/"
             "order invariants and loc = sum of lengths, on canonical, hostile (prefixes, suffixes, mutations, soups, "
             "targeted) and real-world inputs in 7 languages")
RULE = ("one case = (language, text) analysed by the real lex + scan_file under the contract; texts from the union workload: "
        "canonical programs, every prefix and suffix of small programs, line/token mutations, token soups, targeted shapes, "
        "vendored corpus files with cuts and mutations; tree cases go through scan_path/_analyze_file on disk; "
        "non-trivial = at least one measurement reported; distinct = distinct (language, text)")
ASSUMPTIONS = ["Pygments token types are given; 'code token' = kept token that is neither comment nor whitespace",
               "number of lines of a text = count of '\\n' + 1"]
BOUNDS = {"quick": dict(n=28, sizes=dict(canon=30, cut_programs=3, cut_cases=2400, mutated_programs=6, mutations=40,
                                         soups=1500, corpus_cuts=6, corpus_mutations=2), trees=2),
          "thorough": dict(n=112, sizes=dict(canon=1200, cut_programs=30, cut_cases=6000, mutated_programs=120, mutations=100,
                                            soups=60000, corpus_cuts=80, corpus_mutations=25), trees=40)}
MINIMUM = {"quick": {"monitor.scan_file_contract": 20000, "monitor.analyze_file_contract": 100, "cases.with_measurements": 4000},
           "thorough": {"monitor.scan_file_contract": 500000, "monitor.analyze_file_contract": 2000, "cases.with_measurements": 100000}}


def shards(tier, seed):
    b = BOUNDS[tier]
    per = b["n"] // len(canon.LANGS)
    return [{"language": lang, "part": i, "parts": per, "sizes": b["sizes"], "trees": b["trees"]}
            for lang in canon.LANGS for i in range(per)]


class Contracts:
    def __init__(self, ctx):
        from codelimit.common import Scanner

        self.ctx = ctx
        self.Scanner = Scanner
        self.text = None
        self.problems = None
        self.file_problem = None

        def measurements_well_formed(tokens, result):
            ctx.count("monitor.scan_file_contract")
            if self.text is None:
                return True
            self.problems = measurement_problems(self.text, tokens, result)
            return not self.problems

        def loc_is_sum_of_lengths(result):
            ctx.count("monitor.analyze_file_contract")
            ms = result.measurements()
            if result.loc != sum(m.value for m in ms):
                self.file_problem = {"problem": "loc_is_not_sum_of_lengths", "loc": result.loc,
                                     "lengths": [m.value for m in ms][:20]}
                return False
            return True

        def read_hook(f):
            def wrapper(path):
                self.text = f(path)
                return self.text
            return wrapper

        self.patches = [Unpatch(Scanner, "scan_file", lambda f: ensure(f, measurements_well_formed, ID)),
                        Unpatch(Scanner, "_analyze_file", lambda f: ensure(f, loc_is_sum_of_lengths, ID)),
                        Unpatch(Scanner, "_read_file", read_hook)]

    def __enter__(self):
        for p in self.patches:
            p.__enter__()
        return self

    def __exit__(self, *a):
        for p in reversed(self.patches):
            p.__exit__(*a)

    def run(self, language, text, cls):
        from codelimit.common.lexer_utils import lex
        from codelimit.languages import Languages

        ctx = self.ctx
        ctx.eval()
        self.text = text
        self.problems = None
        try:
            tokens = lex(pipeline.lexer_for(language), text, False)
            ms = self.Scanner.scan_file(tokens, Languages.by_name[language])
            if ms:
                if len(ctx.samples) < 3 and cls != "canonical" and len(text) < 400:
                    ctx.sample({"language": language, "class": cls, "input": text,
                                "measurements": pipeline.measurements_as_lists(ms)[:3], "invariants": "all held"})
                ctx.count("cases.with_measurements")
                ctx.count("measurements.checked", len(ms))
                ctx.distinct([language, text])
        except MonitorViolation:
            ctx.violation("measurement_invariant", {"language": language, "text": text},
                          {"class": cls, "problems": self.problems, "text": clip(text, 300)})
        except Exception as e:
            # totality is C03's property; an exception leaves nothing to judge here
            ctx.count("cases.analysis_raised_not_judged")
            ctx.notes.append(f"analysis raised {type(e).__name__} on a {cls} input (judged by C03, not here)")
        finally:
            self.text = None

    def run_tree(self, language, files, cls):
        """files: {relative path: bytes}. scan_path on disk; _analyze_file and scan_file contracts are live."""
        from codelimit.common.Configuration import Configuration

        ctx = self.ctx
        d = tempfile.mkdtemp(prefix="vf-c05-")
        try:
            for rel, data in files.items():
                p = os.path.join(d, rel)
                os.makedirs(os.path.dirname(p), exist_ok=True)
                with open(p, "wb") as f:
                    f.write(data)
            Configuration.exclude = []
            self.file_problem = None
            ctx.eval()
            try:
                cb = self.Scanner.scan_path(Path(d))
                ctx.count("cases.tree")
                for rel, entry in cb.files.items():
                    if entry.loc != sum(m.value for m in entry.measurements()):
                        ctx.violation("file_loc", {"language": language, "files": {k: v.decode("latin-1") for k, v in files.items()}},
                                      {"file": rel, "loc": entry.loc})
            except MonitorViolation:
                ctx.violation("tree_contract", {"language": language, "files": {k: v.decode("latin-1") for k, v in files.items()}},
                              {"class": cls, "problems": self.problems or self.file_problem})
            except Exception as e:
                ctx.count("cases.analysis_raised_not_judged")
        finally:
            self.text = None
            shutil.rmtree(d, ignore_errors=True)


def run(shard, ctx):
    lang = shard["language"]
    with Contracts(ctx) as c:
        j = 0
        for cls, text in texts(lang, rng_for(shard["seed"], "c05w", lang), shard["seed"], shard["sizes"]):
            j += 1
            if j % shard["parts"] != shard["part"]:
                continue
            c.run(lang, text, cls)
            ctx.count("cases." + cls)
        # on-disk trees: corpus files (bytes as they are), canonical programs, Latin-1 and CRLF variants
        rng = rng_for(shard["seed"], "c05t", lang, shard["part"])
        cb = hostile.corpus_bytes(lang)
        ext = canon.EXT[lang]
        for i in range(shard["trees"]):
            files = {}
            for k in range(rng.randint(1, 4)):
                name, data = cb[rng.randrange(len(cb))]
                choice = rng.random()
                if choice < 0.3:
                    data = canon.generate(lang, f"{shard['seed']}:t{shard['part']}:{i}:{k}").text.encode()
                elif choice < 0.4:
                    data = data.replace(b"\n", b"\r\n")
                elif choice < 0.5:
                    data = "// caf\xe9 \xfc\n".encode("latin-1") + data[: rng.randrange(200, 4000)]
                files[f"d{k % 2}/sub/f{k}{ext}"] = data
            c.run_tree(lang, files, "tree")


def replay(case, ctx):
    with Contracts(ctx) as c:
        if "files" in case:
            c.run_tree(case["language"], {k: v.encode("latin-1") for k, v in case["files"].items()}, "replay")
        else:
            c.run(case["language"], case["text"], "replay")


LEVEL_TEXT = ("An input-independent invariant is asserted on every result the real scan_file/_analyze_file return while "
              "tens of thousands of well-formed, malformed and real-world inputs are analysed. Exploration by workload "
              "diversity; right level because the invariant needs no expected output and so can ride on any input.")
LEVEL_NOTE = "Trusted: Pygments token types; the monitor's definition of code token and of end-of-token position (newline-aware)."
