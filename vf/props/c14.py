"""C14 - search returns sound, ordered, disjoint, longest and complete matches.

Monitor shape: reference-model monitor on the real matcher.find_all (and on scope_utils.get_headers for the
built-in header shapes). The reference for generic patterns is the derivative matcher (greedy run per start);
for header shapes it is a small depth-tracking recogniser written here, independent of the engine.
"""
from __future__ import annotations

import itertools

from vf.capture import get_headers_followups, leaf_predicates, signature
from vf.common import rng_for, short_tb
from vf.engine import show, to_expr, tree_from_json
from vf.model import regex as R

ID = "C14"
LEVEL = "exploration"
TECHNIQUE = ("reference-model monitor on the real find_all/get_headers: derivative-based greedy matcher for generic "
             "patterns, depth-tracking recogniser for the built-in header shapes; bounded-exhaustive patterns x sequences")
RULE = ("generic part: (non-nullable pattern tree, sequence) pairs, trees exhaustive up to the size bound over {a,b,c} "
        "(de-duplicated by expression), sequences exhaustive up to the length bound, plus seeded random larger ones; "
        "header part: each built-in header shape (captured from the real language objects) x all token-class sequences "
        "up to the length bound over {identifier, keywords of the shape, other keyword, '(', ')', '{', '=', '=>', other}; "
        "a case is non-trivial when the sequence is non-empty and at least one start position has a successful greedy "
        "run or at least one match is reported; distinct = distinct (pattern/shape, sequence) pairs")
ASSUMPTIONS = ["polynomial reference matcher correct (cross-checked against the derivative matcher here and in C13, and against re in C13)",
               "stateless token predicates (Name, Keyword, Symbol, Operator, TokenValue) are trusted as token classifiers; "
               "Balanced is NOT trusted: the shape reference tracks depth itself"]
BOUNDS = {"quick": dict(tree=5, seq=5, rand=24000, rsize=12, rlen=12, hcap=60000, hrand=8000, hrlen=14, n=32),
          "thorough": dict(tree=6, seq=6, rand=200000, rsize=14, rlen=16, hcap=3000000, hrand=300000, hrlen=18, n=64)}
EXHAUSTIVE = {"quick": True, "thorough": True}
EXHAUSTIVE_SCOPE = {t: f"non-nullable trees <= {b['tree']} nodes over {{a,b,c}} x sequences <= {b['seq']}; header shapes x "
                       f"all token-class sequences while |alphabet|^len <= {b['hcap']} (length reported per shape in monitor_counters)" for t, b in BOUNDS.items()}
MINIMUM = {"quick": {"monitor.find_all": 100000, "monitor.find_all.header_shape": 50000, "monitor.get_headers": 20000},
           "thorough": {"monitor.find_all": 1000000, "monitor.find_all.header_shape": 500000, "monitor.get_headers": 200000}}
ALPHABET = ("a", "b", "c")
KNOWN_PREEMPTION = "D18b-preemption"


def shards(tier, seed):
    b = BOUNDS[tier]
    return [{"part": i, "parts": b["n"], **b} for i in range(b["n"])]


def nonnullable_trees(max_size):
    seen, out = set(), []
    for n in range(1, max_size + 1):
        for t in R.trees_of_size(n, ALPHABET):
            if R.nullable(t):
                continue
            key = show(t)
            if key not in seen:
                seen.add(key)
                out.append(t)
    return out


# ------------------------------------------------------------------------------------------------
# generic oracle: given reference functions, judge a list of reported (start, end, tokens)
# ------------------------------------------------------------------------------------------------
def judge(ctx, kind_prefix, case, seq, reported, greedy_end, in_language, longest_end, describe):
    """reported: list of (start, end, tokens). greedy_end(start)->end|None; in_language(a,b)->bool;
    longest_end(a)->largest e with seq[a:e] in L or None."""
    n = len(seq)
    bad = False
    prev_end = None
    prev_start = None
    for (a, b, toks) in reported:
        if not (0 <= a < b <= n):
            ctx.violation(kind_prefix + "bounds", case, {"match": [a, b], "len": n, **describe})
            bad = True
            continue
        if list(toks) != list(seq[a:b]):
            ctx.violation(kind_prefix + "tokens", case, {"match": [a, b], **describe})
            bad = True
        if not in_language(a, b):
            ctx.violation(kind_prefix + "not_in_language", case, {"match": [a, b], **describe})
            bad = True
        else:
            le = longest_end(a)
            if le != b:
                ctx.violation(kind_prefix + "not_longest", case, {"match": [a, b], "longest_end": le, **describe})
                bad = True
        if prev_start is not None and a <= prev_start:
            ctx.violation(kind_prefix + "order", case, {"match": [a, b], "previous_start": prev_start, **describe})
            bad = True
        if prev_end is not None and a < prev_end:
            ctx.violation(kind_prefix + "overlap", case, {"match": [a, b], "previous_end": prev_end, **describe})
            bad = True
        prev_start, prev_end = a, b
    covered = [False] * n
    for (a, b, _) in reported:
        for i in range(max(0, a), min(n, b)):
            covered[i] = True
    any_greedy = False
    for s in range(n):
        e = greedy_end(s)
        if e is None:
            continue
        any_greedy = True
        if not covered[s]:
            pre = any(s < a and b <= e for (a, b, _) in reported)
            ctx.violation(kind_prefix + "completeness", case,
                          {"uncovered_start": s, "greedy_end": e, "reported": [[a, b] for a, b, _ in reported], **describe},
                          mechanism=KNOWN_PREEMPTION if pre else None)
            bad = True
    return any_greedy or bool(reported), bad


# ------------------------------------------------------------------------------------------------
# part A: generic trees
# ------------------------------------------------------------------------------------------------
def check_generic(ctx, matcher, tree, seq, expr=None):
    case = {"part": "generic", "tree": tree, "seq": list(seq)}
    if expr is None:
        expr = to_expr(tree)
    ctx.eval()
    try:
        res = matcher.find_all(expr, list(seq))
    except Exception as e:
        ctx.violation("exception", case, {"pattern": show(tree), "error": f"{type(e).__name__}: {e}", "tb": short_tb(4)})
        return
    ctx.count("monitor.find_all")
    reported = [(p.start, p.end, p.tokens) for p in res]

    memo = {}
    tseq = tuple(seq)

    def longest_end(a):
        return R.p_longest_end(tree, tseq, a, memo)

    def greedy(s):
        g = R.p_greedy_end(tree, tseq, s, memo)
        if R.size(tree) <= R.DERIVATIVES_ARE_CHEAP and g != R.greedy_end(tree, tseq, s):
            ctx.inconclusive.append(f"references (polynomial vs derivative) disagree on the greedy run: {show(tree)} {seq} @{s}")
        return g

    nontrivial, bad = judge(ctx, "", case, seq, reported, greedy,
                            lambda a, b: b in R.ends_viable(tree, tseq, a, memo)[0], longest_end,
                            {"pattern": show(tree), "sequence": "".join(seq)})
    if nontrivial:
        ctx.count("cases.with_match_or_greedy_success")
    if len(reported) >= 2:
        ctx.count("cases.two_or_more_matches")
    if reported and reported[-1][1] == len(seq):
        ctx.count("cases.match_ends_at_end_of_input")
    return nontrivial


# ------------------------------------------------------------------------------------------------
# part B: header shapes over real tokens
# ------------------------------------------------------------------------------------------------
def token_classes():
    from pygments.token import Token as T

    return {
        "id": (T.Name, "f"), "id2": (T.Name.Other, "g"),
        "function": (T.Keyword.Declaration, "function"), "def": (T.Keyword, "def"), "const": (T.Keyword.Declaration, "const"),
        "async": (T.Keyword, "async"), "if": (T.Keyword, "if"),
        "(": (T.Punctuation, "("), ")": (T.Punctuation, ")"), "{": (T.Punctuation, "{"),
        "=": (T.Operator, "="), "=>": (T.Punctuation, "=>"), ";": (T.Punctuation, ";"), "1": (T.Literal.Number, "1"),
        ":": (T.Operator, ":"), "throws": (T.Keyword.Declaration, "throws"), ",": (T.Punctuation, ","),
    }


def make_tokens(classes):
    from codelimit.common.Location import Location
    from codelimit.common.Token import Token

    tc = token_classes()
    return [Token(Location(1, 1 + 3 * i), tc[c][0], tc[c][1]) for i, c in enumerate(classes)]


def linearize(expression):
    """Interpret a captured real expression as a linear shape: list of ('one'|'opt'|'groups', predicate).
    Returns None when the expression has another structure (then it is not judged by the shape reference)."""
    from codelimit.common.gsm.operator.Atom import Atom
    from codelimit.common.gsm.operator.OneOrMore import OneOrMore
    from codelimit.common.gsm.operator.Optional import Optional
    from codelimit.common.gsm.operator.Operator import Operator as GsmOperator
    from codelimit.common.gsm.predicate.Predicate import Predicate
    from codelimit.common.token_matching.predicate.Balanced import Balanced

    items = expression if isinstance(expression, list) else [expression]
    out = []
    for it in items:
        if isinstance(it, Balanced):
            return None
        if isinstance(it, Predicate):
            out.append(("one", it))
        elif isinstance(it, Atom) and isinstance(it.item, Predicate) and not isinstance(it.item, Balanced):
            out.append(("one", it.item))
        elif isinstance(it, Optional) and len(it.expression) == 1 and isinstance(it.expression[0], Predicate) \
                and not isinstance(it.expression[0], Balanced):
            out.append(("opt", it.expression[0]))
        elif isinstance(it, OneOrMore) and len(it.expression) == 1 and isinstance(it.expression[0], Balanced):
            out.append(("groups", it.expression[0]))
        elif isinstance(it, str) or not isinstance(it, GsmOperator):
            return None  # raw literals (compared with == against tokens) are outside the shape reference
        else:
            return None
    return out


def shape_language(shape, toks, a, b):
    """toks[a:b] is a word of the shape as the engine can see it: a position reachable after the last item. Words that
    stop in the middle of the group sequence are words too (OneOrMore accepts after each closed group), and a word cut
    short inside a group exists only at end of input."""
    return b in shape_all_ends(shape, toks, a)


def shape_all_ends(shape, toks, start):
    n = len(toks)
    fronts = {start}
    for kind, pred in shape:
        nxt = set()
        for p in fronts:
            if kind in ("one", "opt"):
                if kind == "opt":
                    nxt.add(p)
                if p < n and pred.accept(toks[p]):
                    nxt.add(p + 1)
            else:
                q = p
                while q < n and pred.left.accept(toks[q]):
                    depth, closed = 0, None
                    while q < n:
                        if pred.left.accept(toks[q]):
                            depth += 1
                        elif pred.right.accept(toks[q]):
                            depth -= 1
                        q += 1
                        if depth == 0:
                            closed = q
                            break
                    if closed is None:
                        nxt.add(n)  # cut short by end of input: the engine's automaton is in an accepting state
                        break
                    nxt.add(closed)
        fronts = nxt
        if not fronts:
            return set()
    return {e for e in fronts if e > start}


def shape_greedy_end(shape, toks, start):
    """The deterministic run the property calls greedy: consume while some continuation exists; succeeds iff the
    position where it gets stuck (or the end of input) ends a word. For these linear shapes with disjoint item
    predicates the run is unique; it equals the largest end when the run's stuck position is a word end."""
    ends = shape_all_ends(shape, toks, start)
    if not ends:
        return None
    e = max(ends)
    # the run continues past e only if a longer viable prefix exists that is not a word: for linear shapes the only
    # such prefixes lie inside an unfinished group, which is impossible before end of input (cut groups are words).
    return e


def check_shape(ctx, matcher, scope_utils, lang, idx, expression, followed_by, shape, classes):
    toks = make_tokens(classes)
    case = {"part": "shape", "language": lang, "expression_index": idx, "classes": list(classes)}
    desc = {"language": lang, "expression": str(idx), "tokens": " ".join(t.value for t in toks)}
    ctx.eval()
    try:
        res = matcher.find_all(expression, toks)
    except Exception as e:
        ctx.violation("exception", case, {**desc, "error": f"{type(e).__name__}: {e}", "tb": short_tb(4)})
        return
    ctx.count("monitor.find_all.header_shape")
    reported = [(p.start, p.end, p.tokens) for p in res]

    nontrivial, _ = judge(ctx, "shape.", case, toks, reported,
                          lambda s: shape_greedy_end(shape, toks, s),
                          lambda a, b: shape_language(shape, toks, a, b),
                          lambda a: (max(shape_all_ends(shape, toks, a)) if shape_all_ends(shape, toks, a) else None),
                          desc)
    # parenthesis nesting: a match that ends before the end of input has returned to depth zero
    groups = next(p for k, p in shape if k == "groups")
    for (a, b, _) in reported:
        if 0 <= a < b < len(toks):
            depth = 0
            for t in toks[a:b]:
                if groups.left.accept(t):
                    depth += 1
                elif groups.right.accept(t):
                    depth -= 1
            if depth != 0:
                ctx.violation("shape.unbalanced_end", case, {"match": [a, b], "depth": depth, **desc})
    if nontrivial:
        ctx.count("cases.shape.with_match_or_greedy_success")
        ctx.count("distinct.counted_in_shard")

    # get_headers: the same search qualified by the follow-up pattern
    try:
        headers = scope_utils.get_headers(toks, expression, followed_by)
    except StopIteration:
        # `next(t for t in pattern.tokens if t.is_name())` on a match without a Name token; the real shapes always
        # contain Name(), so this is reported as an exception
        ctx.violation("exception", case, {**desc, "error": "StopIteration in get_headers"})
        return
    except Exception as e:
        ctx.violation("exception", case, {**desc, "error": f"get_headers {type(e).__name__}: {e}", "tb": short_tb(4)})
        return
    ctx.count("monitor.get_headers")

    def qualifies(e):
        if followed_by is None:
            return True
        return matcher.starts_with(followed_by, toks[e:]) is not None

    hrep = [(h.token_range.start, h.token_range.end, toks[h.token_range.start:h.token_range.end]) for h in headers]
    for h in headers:
        a, b = h.token_range.start, h.token_range.end
        if not (0 <= a < b <= len(toks)) or not any(t is h.name_token for t in toks[a:b]) or not h.name_token.is_name():
            ctx.violation("headers.name_token", case, {"header": [a, b], **desc})
        if not qualifies(b):
            ctx.violation("headers.unqualified", case, {"header": [a, b], **desc})
    judge(ctx, "headers.", case, toks, hrep,
          lambda s: (lambda e: e if e is not None and qualifies(e) else None)(shape_greedy_end(shape, toks, s)),
          lambda a, b: shape_language(shape, toks, a, b),
          lambda a: (max(shape_all_ends(shape, toks, a)) if shape_all_ends(shape, toks, a) else None),
          desc)
    if headers:
        ctx.count("cases.shape.with_header")


def shape_alphabet(shape, expression, followed_by):
    """Token classes relevant for a shape: identifier, parentheses, '{', one other punctuation, one other keyword and
    every class that some leaf predicate of the expression or of its follow-up pattern accepts."""
    tc = token_classes()
    toks = dict(zip(tc, make_tokens(list(tc))))
    relevant = ["id", "(", ")", "{", ";", "if"]
    leaves = leaf_predicates(expression) + leaf_predicates(followed_by if followed_by is not None else [])
    for name, t in toks.items():
        if name in relevant or name in ("id2", "1", ","):
            continue
        for p in leaves:
            try:
                if p.accept(t):
                    relevant.append(name)
                    break
            except Exception:
                pass
    return relevant


def unique_shapes(ctx=None):
    captured = get_headers_followups()
    uniq, seen = [], {}
    for lang, expr, fb in captured:
        shape = linearize(expr)
        if shape is None or not any(k == "groups" for k, _ in shape):
            if ctx is not None:
                ctx.notes.append(f"{lang}: a header expression is not a linear shape; judged only by the generic monitors")
                ctx.count("shapes.not_linear")
            continue
        sig = (signature(expr), signature(fb))
        if sig in seen:
            seen[sig][0].append(lang)
            continue
        entry = ([lang], expr, fb, shape)
        seen[sig] = entry
        uniq.append(entry)
    return uniq


def random_shape_sequence(rng, shape, alpha, max_len):
    """A header instance of the shape (optionally nested, optionally followed by follow-up-like tokens), then 0-3 edits."""
    def instance(depth):
        out = []
        for kind, pred in shape:
            if kind == "one" or (kind == "opt" and rng.random() < 0.5):
                cands = [c for c in alpha if pred.accept(make_tokens([c])[0])]
                out.append(rng.choice(cands) if cands else "id")
            elif kind == "groups":
                for _ in range(rng.choice([1, 1, 1, 2])):
                    out.append("(")
                    for _ in range(rng.randint(0, 3)):
                        r = rng.random()
                        if r < 0.25 and depth < 2:
                            out.extend(instance(depth + 1))
                            if rng.random() < 0.5:
                                out.append("{")
                        elif r < 0.4:
                            out.extend(["(", ")"])
                        else:
                            out.append(rng.choice(alpha))
                    out.append(")")
        return out

    seq = []
    for _ in range(rng.choice([1, 1, 2])):
        if rng.random() < 0.3:
            seq.append(rng.choice(alpha))
        seq.extend(instance(0))
        seq.extend(rng.choice([["{"], ["=>", "{"], [":"], ["throws", "id", "{"], [";"], []]) if True else [])
    for _ in range(rng.randint(0, 3)):
        if not seq:
            break
        i = rng.randrange(len(seq))
        r = rng.random()
        if r < 0.4:
            del seq[i]
        elif r < 0.7:
            seq.insert(i, rng.choice(alpha))
        else:
            seq[i] = rng.choice(alpha)
    return [c for c in seq if c in alpha or c in ("{", "(", ")")][:max_len]


def run(shard, ctx):
    from codelimit.common.gsm import matcher
    from codelimit.common.scope import scope_utils

    # ---- part A ----
    trees = nonnullable_trees(shard["tree"])
    seqs = R.sequences(ALPHABET, shard["seq"])
    mine = trees[shard["part"]::shard["parts"]]
    if shard["part"] == 0:
        ctx.count("trees.nonnullable_in_bound", len(trees))
    for t in mine:
        expr = to_expr(t)
        for s in seqs:
            if check_generic(ctx, matcher, t, s, expr):
                ctx.count("distinct.counted_in_shard")
    if mine:
        t = mine[len(mine) // 2]
        s = seqs[-7]
        ctx.sample({"pattern": show(t), "sequence": "".join(s),
                    "reported": [[p.start, p.end] for p in matcher.find_all(to_expr(t), list(s))]})
    rng = rng_for(shard["seed"], "c14", shard["part"])
    for i in range(shard["rand"] // shard["parts"]):
        t = R.random_tree(rng, rng.randint(5, shard["rsize"]), ALPHABET)
        if R.p_member(t, ()):
            continue
        cand = [tuple(rng.choice(ALPHABET) for _ in range(rng.randint(1, shard["rlen"]))) for _ in range(3)]
        if R.size(t) >= 7:
            cand += [s for s in seqs if 1 <= len(s) <= 3][:: 3]  # short inputs expose faults in the automaton's structure
        for s in cand:
            ctx.count("cases.random")
            if check_generic(ctx, matcher, t, s):
                ctx.distinct(["rand", show(t), "".join(s)])

    # ---- part B ----
    uniq = unique_shapes(ctx)
    if shard["part"] == 0:
        ctx.count("shapes.distinct", len(uniq))
    k = 0
    for idx, (langs, expr, fb, shape) in enumerate(uniq):
        alpha = shape_alphabet(shape, expr, fb)
        n_max = 0
        while len(alpha) ** (n_max + 1) <= shard["hcap"] and n_max < 12:
            n_max += 1
        ctx.maxi(f"max.shape{idx}.exhaustive_len", n_max)
        for n in range(0, n_max + 1):
            for classes in itertools.product(alpha, repeat=n):
                k += 1
                if k % shard["parts"] != shard["part"]:
                    continue
                check_shape(ctx, matcher, scope_utils, "/".join(langs), idx, expr, fb, shape, classes)
        for j in range(shard["hrand"] // shard["parts"]):
            classes = random_shape_sequence(rng, shape, alpha, shard["hrlen"])
            ctx.count("cases.shape.random")
            before = ctx.counters.get("distinct.counted_in_shard", 0)
            check_shape(ctx, matcher, scope_utils, "/".join(langs), idx, expr, fb, shape, classes)
            if ctx.counters.get("distinct.counted_in_shard", 0) != before:
                ctx.counters["distinct.counted_in_shard"] = before
                ctx.distinct(["shape", idx, classes])
        if shard["part"] == idx % shard["parts"]:
            ctx.sample({"header_shape_of": langs, "alphabet": alpha, "exhaustive_up_to_len": n_max,
                        "random_example": random_shape_sequence(rng, shape, alpha, shard["hrlen"])})


def classify(v):
    return v.get("mechanism")


def replay(case, ctx):
    from codelimit.common.gsm import matcher
    from codelimit.common.scope import scope_utils

    if case["part"] == "generic":
        check_generic(ctx, matcher, tree_from_json(case["tree"]), tuple(case["seq"]))
    else:
        uniq = unique_shapes()
        langs, expr, fb, shape = uniq[case["expression_index"]]
        check_shape(ctx, matcher, scope_utils, "/".join(langs), case["expression_index"], expr, fb, shape, case["classes"])


LEVEL_TEXT = ("Every (non-nullable pattern, sequence) pair inside the bound and every token-class sequence up to the bound "
              "for each built-in header shape is run through the real find_all / get_headers and judged against an "
              "independent reference (soundness, tokens, longest, order, disjointness, completeness, balanced ends). "
              "Exhaustive inside the bound, sampling beyond; the right level for a pure search routine whose failures "
              "(overlap at end of input, pre-emption) show on sequences of length 2-4.")
LEVEL_NOTE = ("Trusted: derivative matcher (cross-checked in C13), the stateless token predicates as classifiers. The "
              "pre-emption mechanism of find_all is a recorded known finding (known_findings.json D18b) attributed by an "
              "arithmetic classifier; every other completeness failure is a violation.")
