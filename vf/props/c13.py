"""C13 - the pattern engine implements regular-expression semantics.

Monitor shape: reference-model monitor at the call boundary of the real matcher.match / nfa_match / starts_with.
The reference is twofold (Brzozowski derivatives on the syntax tree, and Python's `re`), and the two references
are compared with each other on every case (a disagreement is a harness problem => inconclusive, never a verdict).
"Terminates" is decided by a logical step budget inside codelimit code (sys.monitoring), not by wall clock.
"""
from __future__ import annotations

import itertools

from vf.common import BudgetExceeded, StepBudget, rng_for, short_tb
from vf.engine import show, to_expr, to_expr_shared, tree_from_json
from vf.model import regex as R

ID = "C13"
LEVEL = "exploration"
TECHNIQUE = "reference-model monitor (polynomial matcher, cross-checked with derivatives and Python re) on the real match/nfa_match/starts_with, " \
            "bounded-exhaustive pattern trees x sequences, step-budget monitor for termination"
RULE = ("cases are (pattern tree, input sequence) pairs; trees enumerated exhaustively up to the size bound over "
        "{a,b,c} and de-duplicated by the expression they translate to, sequences exhaustively up to the length "
        "bound, plus seeded random larger trees/sequences; a case is non-trivial when the tree has at least one "
        "operator and the sequence is non-empty; distinct = distinct (expression, sequence) pairs, counted per "
        "shard over disjoint tree partitions")
ASSUMPTIONS = ["the in-tree polynomial reference (structural recursion over ends / viable prefixes) is correct; it is cross-checked "
               "with a Brzozowski-derivative matcher on all patterns of <= 9 nodes and with Python's re on patterns of <= 7 nodes and "
               "inputs of <= 6 letters (both blow up on large nested repetitions, so they are not used there)",
               "atoms are Identity predicates on distinct letters (pairwise disjoint), as the property requires"]
BOUNDS = {"quick": dict(tree=5, seq=4, rand=24000, rsize=14, rlen=12, n=32, ab_tree=0, ab_seq=0, large=14),
          "thorough": dict(tree=6, seq=5, rand=600000, rsize=16, rlen=14, n=64, ab_tree=8, ab_seq=5, large=200)}
EXHAUSTIVE = {"quick": True, "thorough": True}
EXHAUSTIVE_SCOPE = {t: f"all pattern trees with <= {b['tree']} nodes over {{a,b,c}} x all sequences of length <= {b['seq']}" +
                       (f"; all trees with 6..{b['ab_tree']} nodes over {{a,b}} x all sequences of length <= {b['ab_seq']}" if b["ab_tree"] else "") +
                       "; random cases beyond are sampling" for t, b in BOUNDS.items()}
MINIMUM = {"quick": {"monitor.match": 100000, "monitor.nfa_match": 100000, "monitor.starts_with": 100000, "cases.shared_operator_objects": 20000},
           "thorough": {"monitor.match": 1000000, "monitor.nfa_match": 1000000, "monitor.starts_with": 1000000}}
ALPHABET = ("a", "b", "c")
STEP_BUDGET = 3_000_000


def shards(tier, seed):
    b = BOUNDS[tier]
    return [{"part": i, "parts": b["n"], **b} for i in range(b["n"])]


def all_trees(max_size):
    seen, out = set(), []
    for n in range(1, max_size + 1):
        for t in R.trees_of_size(n, ALPHABET):
            key = show(t)
            if key not in seen:
                seen.add(key)
                out.append(t)
    return out


class Monitors:
    def __init__(self, ctx):
        from codelimit.common.gsm import matcher

        self.m = matcher
        self.ctx = ctx
        self.steps = StepBudget()
        self.steps.install()

    def close(self):
        self.steps.uninstall()
        self.ctx.maxi("max.steps_per_call", self.steps.max_seen)

    def call(self, fn, expr, seq, case, what):
        self.steps.start(STEP_BUDGET)
        try:
            return True, fn(expr, list(seq))
        except BudgetExceeded as e:
            self.ctx.violation("step_budget", case, {"call": what, "error": str(e)})
        except RecursionError:
            self.ctx.violation("exception", case, {"call": what, "error": "RecursionError"})
        except Exception as e:  # any engine exception refutes "a full match is reported exactly when ..."
            self.ctx.violation("exception", case, {"call": what, "error": f"{type(e).__name__}: {e}", "tb": short_tb(4)})
        finally:
            self.steps.stop()
        return False, None

    def check(self, tree, seq, expr=None):
        ctx = self.ctx
        case = {"tree": tree, "seq": list(seq)}
        if expr is None:
            try:
                expr = to_expr(tree)
            except Exception as e:
                ctx.violation("exception", case, {"call": "construct", "error": f"{type(e).__name__}: {e}"})
                return
        # primary reference: polynomial structural recursion; derivatives (can blow up on large nested patterns) and `re`
        # (exponential on repeated nullable bodies) are cross-checks on the small cases only
        exp = R.p_member(tree, seq)
        pre = R.p_shortest_nonempty_prefix(tree, seq)
        if R.size(tree) <= R.DERIVATIVES_ARE_CHEAP:
            ctx.count("reference.cross_checked_with_derivatives")
            if exp != R.member(tree, seq) or pre != R.shortest_nonempty_prefix(tree, seq):
                ctx.inconclusive.append(f"references (polynomial vs derivative) disagree: {show(tree)} {seq}")
                return
        if R.re_is_safe(tree, seq):
            ctx.count("reference.cross_checked_with_re")
            if exp != R.re_member(tree, seq):
                ctx.inconclusive.append(f"references disagree on membership: {show(tree)} {seq}")
                return
            if pre != R.re_shortest_nonempty_prefix(tree, seq):
                ctx.inconclusive.append(f"references disagree on shortest prefix: {show(tree)} {seq}")
                return
        ctx.eval()
        ok, m = self.call(self.m.match, expr, seq, case, "match")
        if ok:
            ctx.count("monitor.match")
            if (m is not None) != exp:
                ctx.violation("match", case, {"pattern": show(tree), "expected_in_language": exp, "observed": m is not None})
            elif m is not None and (list(m.tokens) != list(seq) or m.start != 0 or m.end != len(seq)):
                ctx.violation("match_record", case, {"pattern": show(tree), "tokens": list(map(str, m.tokens)),
                                                     "start": m.start, "end": m.end})
        ok, n = self.call(self.m.nfa_match, expr, seq, case, "nfa_match")
        if ok:
            ctx.count("monitor.nfa_match")
            if bool(n) != exp:
                ctx.violation("nfa_match", case, {"pattern": show(tree), "expected_in_language": exp, "observed": bool(n)})
        ok, s = self.call(self.m.starts_with, expr, seq, case, "starts_with")
        if ok:
            ctx.count("monitor.starts_with")
            obs = None if s is None else s.end
            if obs != pre:
                ctx.violation("starts_with", case, {"pattern": show(tree), "expected_prefix_len": pre, "observed": obs})
            elif s is not None and (list(s.tokens) != list(seq[:pre]) or s.start != 0):
                ctx.violation("starts_with_record", case, {"pattern": show(tree), "tokens": list(map(str, s.tokens))})
        if exp:
            ctx.count("cases.in_language")
        if pre is not None:
            ctx.count("cases.has_matching_prefix")
        if R.p_member(tree, ()):
            ctx.count("cases.nullable_pattern")


def run(shard, ctx):
    mon = Monitors(ctx)
    try:
        trees = all_trees(shard["tree"])
        seqs = R.sequences(ALPHABET, shard["seq"])
        mine = trees[shard["part"]::shard["parts"]]
        ctx.count("trees.enumerated_total_in_bound", len(trees) if shard["part"] == 0 else 0)
        for t in mine:
            try:
                expr = to_expr(t)
            except Exception as e:
                ctx.violation("exception", {"tree": t, "seq": []}, {"call": "construct", "error": repr(e)})
                continue
            ctx.count("trees.checked")
            if R.size(t) >= 2:
                ctx.count("distinct.counted_in_shard", len(seqs) - 1)
            for s in seqs:
                mon.check(t, s, expr)
        ctx.sample({"pattern": show(mine[len(mine) // 2]), "sequence": "".join(seqs[len(seqs) // 2]),
                    "in_language": R.member(mine[len(mine) // 2], seqs[len(seqs) // 2])})
        # thorough tier: a second exhaustive family over the 2-letter alphabet reaches patterns of 8 nodes
        if shard.get("ab_tree"):
            seen = set()
            k = 0
            ab_seqs = R.sequences(("a", "b"), shard["ab_seq"])
            for n in range(6, shard["ab_tree"] + 1):
                for t in R.trees_of_size(n, ("a", "b")):
                    key = show(t)
                    if key in seen:
                        continue
                    seen.add(key)
                    k += 1
                    if k % shard["parts"] != shard["part"]:
                        continue
                    expr = to_expr(t)
                    ctx.count("trees.checked_two_letter")
                    ctx.count("distinct.counted_in_shard", len(ab_seqs) - 1)
                    for s in ab_seqs:
                        mon.check(t, s, expr)
        # random larger cases (sampling)
        rng = rng_for(shard["seed"], "c13", shard["part"])
        short_seqs = R.sequences(ALPHABET, 2)
        short3 = R.sequences(ALPHABET, 4)
        n = shard["rand"] // shard["parts"]
        for i in range(n):
            t = R.random_tree(rng, rng.randint(6, shard["rsize"]), ALPHABET)
            for _ in range(4):
                if rng.random() < 0.5:
                    # a word biased towards the language: walk derivatives greedily
                    # a word biased towards the language: extend while the text stays a prefix of some word
                    s = []
                    for _ in range(rng.randint(0, shard["rlen"])):
                        opts = [a for a in ALPHABET if len(s) + 1 in R.ends_viable(t, tuple(s) + (a,), 0, {})[1]]
                        if not opts or (R.p_member(t, s) and rng.random() < 0.2):
                            break
                        s.append(rng.choice(opts))
                    if rng.random() < 0.3:
                        s.append(rng.choice(ALPHABET))
                else:
                    s = [rng.choice(ALPHABET) for _ in range(rng.randint(0, shard["rlen"]))]
                ctx.distinct(["rand", show(t), "".join(s)])
                ctx.count("cases.random")
                mon.check(t, tuple(s))
            # ... and every sequence of length <= 2: faults in the automaton's structure show on short inputs
            if R.size(t) >= 7:
                try:
                    expr = to_expr(t)
                except Exception:
                    expr = None
                for s2 in short_seqs:
                    ctx.count("cases.random_short_exhaustive")
                    mon.check(t, s2, expr)
            if i == 0:
                ctx.sample({"pattern": show(t), "sequence": "".join(s), "random": True})
        # shared sub-pattern objects: the same operator object at several positions of one pattern and in several patterns,
        # patterns re-used after other patterns that share objects with them were compiled
        cache = {}
        pool = []
        for i in range(shard.get("shared", 25)):
            sub = R.random_tree(rng, rng.randint(2, 5), ALPHABET)
            shape = rng.choice(["x?x", "xax", "x|ax", "(xb)*x", "x+bx"])
            t = {"x?x": ("seq", ("opt", sub), sub), "xax": ("seq", sub, ("seq", ("atom", "a"), sub)), "x|ax": ("alt", sub, ("seq", ("atom", "a"), sub)),
                 "(xb)*x": ("seq", ("star", ("seq", sub, ("atom", "b"))), sub), "x+bx": ("seq", ("plus", sub), ("seq", ("atom", "b"), sub))}[shape]
            expr = to_expr_shared(t, cache)
            pool.append((t, expr))
            for t2, e2 in ([(t, expr)] + rng.sample(pool, min(3, len(pool)))):  # this pattern, and earlier ones again
                for s2 in rng.sample(short3, 12):
                    ctx.count("cases.shared_operator_objects")
                    ctx.distinct(["shared", show(t2), "".join(s2)])
                    mon.check(t2, s2, e2)
        # large patterns: "building a matcher terminates for every pattern" must not depend on patterns being small
        for i in range(shard.get("large", 14)):
            t = R.random_tree(rng, rng.randint(30, 90), ALPHABET)
            for _ in range(2):
                s = tuple(rng.choice(ALPHABET) for _ in range(rng.randint(0, 6)))
                ctx.count("cases.large_patterns")
                ctx.distinct(["large", show(t), "".join(s)])
                mon.check(t, s)
    finally:
        mon.close()


def replay(case, ctx):
    mon = Monitors(ctx)
    try:
        mon.check(tree_from_json(case["tree"]), tuple(case["seq"]))
    finally:
        mon.close()

LEVEL_TEXT = ("Every (pattern, sequence) pair inside the stated bound is executed on the real matcher and compared with an "
              "independent reference semantics; beyond the bound seeded random patterns are sampled. This is exploration "
              "of executions, exhaustive only inside the bound; it is the right level because the engine is pure and "
              "small-scope counterexamples (nested nullable repetitions, prefix/shortest confusion) are the realistic breaks.")
LEVEL_NOTE = ("Trusted: the derivative reference (cross-checked per case with a denotational matcher and Python re), "
              "CPython's sys.monitoring step counter. Only Identity atoms on distinct letters are used.")
