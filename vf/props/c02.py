"""C02 - length thresholds and the refactoring alarm are applied consistently.

Monitor shape: reference-model monitor. A four-line reference classifier (easy <=15, verbose 16-30, hard 31-60,
unmaintainable >60) is compared, as icontract post-conditions installed on the real functions, with make_profile,
make_count_profile, get_style_for_measurement, get_emoji_for_measurement, format_unit, CheckResult.add and
LanguageTotals.add; end-to-end, real source files whose functions have exactly chosen lengths are pushed through
check_command / __main__.check / the CLI and through print_findings (text, Markdown), and the captured output is parsed.
"""
from __future__ import annotations

import contextlib
import io
import os
import re
import shutil
import subprocess
import tempfile
from pathlib import Path

from vf import MonitorViolation, REPO
from vf.common import Unpatch, ensure, rng_for, short_tb
from vf.gen import canon

ID = "C02"
LEVEL = "exploration"
TECHNIQUE = ("reference classifier as icontract post-conditions on the real threshold functions + end-to-end parse of "
             "check_command / CLI / print_findings output on generated files with functions of exactly chosen lengths "
             "(every L in 1..130 in 7 languages, boundary multisets, random multisets)")
RULE = ("unit cases: every length L = 1..130 (+ large values) through each threshold function; end-to-end cases: a tree of 1-6 real "
        "source files in up to 3 languages whose functions have exactly the chosen lengths (single L = 1..130 per language; all "
        "0/1/2-element combinations of the boundary lengths {14,15,16,17,29,30,31,32,59,60,61,62}; random multisets of up to 40 "
        "functions), checked with quiet on and off; non-trivial = at least one function longer than 15 lines; distinct = distinct "
        "(language set, length multiset, quiet)")
ASSUMPTIONS = ["the generated functions really have the chosen length (verified on every case against scan_file before judging; a "
               "mismatch is a harness problem, reported as inconclusive)",
               "--quiet cannot be passed through click in this image (DESIGN section 2); quiet is decided at check_command and __main__.check"]
BOUNDS = {"quick": dict(n=28, maxL=130, random=12, cli=1), "thorough": dict(n=112, maxL=400, random=400, cli=8)}
EXHAUSTIVE = {"quick": True, "thorough": True}
EXHAUSTIVE_SCOPE = {t: f"every L in 1..{b['maxL']} per language (Python from 2) as a real file through check; all <=2-element "
                       "combinations of the 12 boundary lengths" for t, b in BOUNDS.items()}
MINIMUM = {"quick": {"monitor.check_command_runs": 1500, "monitor.threshold_contracts": 20000, "monitor.findings_renderings": 300},
           "thorough": {"monitor.check_command_runs": 8000, "monitor.threshold_contracts": 200000, "monitor.findings_renderings": 3000}}
BOUNDARY = [14, 15, 16, 17, 29, 30, 31, 32, 59, 60, 61, 62]
COLORS = ["green", "yellow", "dark_orange", "red"]
PY = "/venv/bin/python"


def cat(L):
    return 0 if L <= 15 else 1 if L <= 30 else 2 if L <= 60 else 3


def shards(tier, seed):
    b = BOUNDS[tier]
    per = b["n"] // len(canon.LANGS)
    return [{"language": lang, "part": i, "parts": per, **b} for lang in canon.LANGS for i in range(per)]


# ------------------------------------------------------------------------------------------------
# contracts on the real threshold functions
# ------------------------------------------------------------------------------------------------
class Contracts:
    def __init__(self, ctx):
        from codelimit.common import CheckResult as CR, LanguageTotals as LT, utils as U

        self.ctx = ctx
        self.why = None
        c = self

        def note(ok, why):
            ctx.count("monitor.threshold_contracts")
            if not ok:
                c.why = why
            return ok

        def profile_matches_classifier(measurements, result):
            exp = [0, 0, 0, 0]
            for m in measurements:
                exp[cat(m.value)] += m.value
            return note(list(result) == exp, {"function": "make_profile", "expected": exp, "observed": list(result)})

        def count_profile_matches_classifier(measurements, result):
            exp = [0, 0, 0, 0]
            for m in measurements:
                exp[cat(m.value)] += 1
            return note(list(result) == exp, {"function": "make_count_profile", "expected": exp, "observed": list(result)})

        def style_matches_classifier(value, result):
            got = result.color.name if result.color else None
            return note(got == COLORS[cat(value)], {"function": "get_style_for_measurement", "length": value, "observed": got})

        def emoji_matches_classifier(value, result):
            exp = "✖" if value > 60 else "⚠" if value > 30 else "✓"
            return note(result == exp, {"function": "get_emoji_for_measurement", "length": value, "observed": result})

        def unit_colour_matches_classifier(name, length, result):
            colours = {s.style.color.name for s in result.spans if getattr(s.style, "color", None)} if result.spans else set()
            txt = result.plain
            ok = COLORS[cat(length)] in colours and str(length) in txt
            return note(ok, {"function": "format_unit", "length": length, "observed_colours": sorted(colours)})

        self.patches = [
            Unpatch(U, "make_profile", lambda f: ensure(f, profile_matches_classifier, ID)),
            Unpatch(U, "make_count_profile", lambda f: ensure(f, count_profile_matches_classifier, ID)),
            Unpatch(U, "get_style_for_measurement", lambda f: ensure(f, style_matches_classifier, ID)),
            Unpatch(U, "get_emoji_for_measurement", lambda f: ensure(f, emoji_matches_classifier, ID)),
            Unpatch(U, "format_unit", lambda f: ensure(f, unit_colour_matches_classifier, ID)),
        ]
        # methods: CheckResult.add and LanguageTotals.add (counters advance by the classifier's counts)
        self.CR, self.LT = CR.CheckResult, LT.LanguageTotals
        self.orig_cr_add, self.orig_lt_add = self.CR.add, self.LT.add

        def cr_add(self_, file, measurements):
            h0, u0 = self_.hard_to_maintain, self_.unmaintainable
            r = c.orig_cr_add(self_, file, measurements)
            eh = sum(1 for m in measurements if cat(m.value) == 2)
            eu = sum(1 for m in measurements if cat(m.value) == 3)
            if not note(self_.hard_to_maintain - h0 == eh and self_.unmaintainable - u0 == eu,
                        {"function": "CheckResult.add", "lengths": [m.value for m in measurements],
                         "hard_delta": self_.hard_to_maintain - h0, "unmaintainable_delta": self_.unmaintainable - u0}):
                raise MonitorViolation(ID, "CheckResult.add")
            return r

        def lt_add(self_, entry):
            before = (self_.files, self_.loc, self_.functions, self_.hard_to_maintain, self_.unmaintainable)
            r = c.orig_lt_add(self_, entry)
            ms = entry.measurements()
            exp = (before[0] + 1, before[1] + entry.loc, before[2] + len(ms),
                   before[3] + sum(1 for m in ms if cat(m.value) == 2), before[4] + sum(1 for m in ms if cat(m.value) == 3))
            got = (self_.files, self_.loc, self_.functions, self_.hard_to_maintain, self_.unmaintainable)
            if not note(got == exp, {"function": "LanguageTotals.add", "expected": exp, "observed": got}):
                raise MonitorViolation(ID, "LanguageTotals.add")
            return r

        self.cr_add, self.lt_add = cr_add, lt_add

    def __enter__(self):
        for p in self.patches:
            p.__enter__()
        self.CR.add = self.cr_add
        self.LT.add = self.lt_add
        return self

    def __exit__(self, *a):
        self.CR.add = self.orig_cr_add
        self.LT.add = self.orig_lt_add
        for p in reversed(self.patches):
            p.__exit__(*a)


# ------------------------------------------------------------------------------------------------
LINE = re.compile(r"^(?P<path>.+?):(?P<line>\d+):(?P<col>\d+): (?P<len>\d+) (?P<sym>\S) (?P<name>.+)$")


def parse_check_output(out):
    rows, summary = [], None
    joined = " ".join(ln.strip() for ln in out.split("\n"))
    m = re.search(r"(\d+) files checked, (\d+) functions need refactoring", joined)
    if m:
        summary = ("refactor", int(m.group(1)), int(m.group(2)))
    m2 = re.search(r"(\d+) files checked, .*Refactoring not necessary", joined)
    if m2:
        summary = ("fine", int(m2.group(1)), 0)
    for ln in out.split("\n"):
        mm = LINE.match(ln.strip())
        if mm:
            rows.append((mm.group("path"), int(mm.group("line")), int(mm.group("col")), int(mm.group("len")), mm.group("sym"), mm.group("name")))
    return rows, summary


def build_tree(root, spec, variant=0):
    """spec: list of (language, [lengths]) -> {relative path: (language, lengths)}"""
    files = {}
    for i, (lang, lengths) in enumerate(spec):
        rel = f"src{i % 2}/file{i}{canon.EXT[lang]}"
        p = os.path.join(root, rel)
        os.makedirs(os.path.dirname(p), exist_ok=True)
        text = canon.file_with_functions(lang, lengths, prefix=f"unit{i}x")
        # physical shape of the file around the functions must not matter: no final newline, CRLF, blank/comment padding
        v = (variant + i) % 6
        lead = "#" if lang == "Python" else "//"
        if v == 1:
            text = text.rstrip("\n")
        elif v == 2:
            text = text.replace("\n", "\r\n")
        elif v == 3:
            text = f"{lead} header\n\n" + text + f"\n\n{lead} trailer"
        elif v == 4:
            text = "\n" * 3 + text.rstrip("\n")
        with open(p, "w", newline="") as f:
            f.write(text)
        files[rel] = (lang, lengths)
    return files


def expected_listing(files, order):
    """rows (path, length, symbol, name) in file order, longest first per file (stable)"""
    rows = []
    for rel in order:
        lang, lengths = files[rel]
        named = [(L, f"unit{int(re.search(r'file(\d+)', rel).group(1))}x{j}") for j, L in enumerate(lengths)]
        risky = sorted([x for x in named if x[0] > 30], key=lambda x: -x[0])
        for L, name in risky:
            rows.append((rel, L, "✖" if L > 60 else "⚠", name))
    return rows


def spec_variant(spec, quiet):
    return sum(sum(ls) + len(l) for l, ls in spec) + (3 if quiet else 0)


def verify_lengths(ctx, root, files):
    """precondition: scan_file really measures the chosen lengths (else the harness is wrong, not codelimit)"""
    from vf import pipeline

    for rel, (lang, lengths) in files.items():
        _, ms = pipeline.analyze(lang, open(os.path.join(root, rel)).read())
        if [m.value for m in ms] != list(lengths):
            ctx.inconclusive.append(f"harness: generated {lang} file has lengths {[m.value for m in ms]}, wanted {list(lengths)}")
            return False
    return True


def run_check(ctx, root, paths, quiet, via="check_command"):
    import typer
    from codelimit.common.Configuration import Configuration

    Configuration.exclude = []
    Configuration.verbose = False
    old = os.getcwd()
    os.chdir(root)
    buf = io.StringIO()
    code = None
    try:
        with contextlib.redirect_stdout(buf):
            try:
                if via == "check_command":
                    from codelimit.commands.check import check_command
                    check_command([Path(p) for p in paths], quiet)
                else:
                    import codelimit.__main__ as M
                    M.check(paths=[Path(p) for p in paths], exclude=None, quiet=quiet, verbose=False)
            except typer.Exit as e:
                code = e.exit_code
    finally:
        os.chdir(old)
    return code, buf.getvalue()


def judge_check(ctx, case, files, order, quiet, code, out, via):
    ctx.count("monitor.check_command_runs")
    all_lengths = [L for rel in order for L in files[rel][1]]
    exp_code = 1 if any(L > 60 for L in all_lengths) else 0
    exp_rows = expected_listing(files, order)
    n_risky = len(exp_rows)
    if code != exp_code:
        ctx.violation("exit_status", case, {"via": via, "expected": exp_code, "observed": code, "lengths": all_lengths})
    rows, summary = parse_check_output(out)
    if quiet and n_risky == 0:
        if out.strip():
            ctx.violation("quiet_printed_something", case, {"via": via, "output": out[:200]})
        return
    got_rows = [(p, L, s, n) for (p, _, _, L, s, n) in rows]
    if got_rows != exp_rows:
        ctx.violation("listing", case, {"via": via, "expected": exp_rows[:8], "observed": got_rows[:8], "lengths": all_lengths})
    if summary is None:
        ctx.violation("no_summary", case, {"via": via, "output": out[-200:]})
    else:
        kind, nfiles, k = summary
        if nfiles != len(order) or k != n_risky or (kind == "fine") != (n_risky == 0):
            ctx.violation("summary_count", case, {"via": via, "summary": summary, "expected_files": len(order), "expected_functions": n_risky})


def end_to_end(ctx, spec, quiet, label, key, variant=None):
    root = os.path.realpath(tempfile.mkdtemp(prefix="vf-c02-"))
    try:
        variant = spec_variant(spec, quiet) if variant is None else variant
        files = build_tree(root, spec, variant)
        case = {"spec": [[l, list(ls)] for l, ls in spec], "quiet": quiet, "variant": variant}
        ctx.count(f"file_shape_variants.{variant % 6}")
        if not verify_lengths(ctx, root, files):
            return
        order = sorted(files, key=lambda r: int(re.search(r"file(\d+)", r).group(1)))
        ctx.eval()
        for via in ("check_command", "__main__.check"):
            try:
                code, out = run_check(ctx, root, order, quiet, via)
            except MonitorViolation:
                ctx.violation("threshold_contract", case, {"via": via, "why": _C["c"].why})
                continue
            except Exception as e:
                ctx.violation("exception", case, {"via": via, "error": f"{type(e).__name__}: {e}", "tb": short_tb(5)})
                continue
            judge_check(ctx, case, files, order, quiet, code, out, via)
            if via == "check_command" and any(L > 30 for _, ls in spec for L in ls):
                ctx.sample({"files": {r: list(v[1]) for r, v in files.items()}, "quiet": quiet, "observed_exit": code,
                            "observed_listing": [ln.strip() for ln in out.split("\n") if ln.strip()][:4]})
        # via a directory: files are found by os.walk, in walk order
        try:
            code, out = run_check(ctx, root, ["."], quiet, "check_command")
            rows, _ = parse_check_output(out)
            walk_order = []
            for r in rows:
                if r[0] not in walk_order:
                    walk_order.append(r[0])
            rest = [r for r in order if r not in walk_order]
            judge_check(ctx, dict(case, via_dir=True), files, walk_order + rest, quiet, code, out, "check_command(dir)")
        except MonitorViolation:
            ctx.violation("threshold_contract", case, {"via": "dir", "why": _C["c"].why})
        # the same file reached through several arguments (check src src/big.py; check a.py a.py): however often a file is
        # listed, the summary count must match the listing, every listed row must be a function over 30, and the exit status
        # follows from the lengths
        d_first, d_last = os.path.dirname(order[0]), os.path.dirname(order[-1])
        forms = ([d_first, order[0]], [order[0], order[0]], [".", order[-1]], [order[0], d_last], [order[-1], d_first], [d_last, d_first],
                 list(reversed(order)) + [d_first])
        v = spec_variant(spec, quiet)
        for paths in [forms[v % 7], forms[(v + 3) % 7]]:
            try:
                code, out = run_check(ctx, root, paths, False, "check_command")
            except MonitorViolation:
                ctx.violation("threshold_contract", case, {"via": "overlapping arguments", "why": _C["c"].why})
                continue
            ctx.count("monitor.check_command_runs")
            ctx.count("monitor.overlapping_argument_runs")
            rows, summary = parse_check_output(out)
            exp_rows = expected_listing(files, order)
            exp_set = {(p, L, s, n) for p, L, s, n in exp_rows}
            got_rows = [(p, L, s, n) for (p, _, _, L, s, n) in rows]
            ocase = dict(case, paths=paths)
            if any(r not in exp_set for r in got_rows):
                ctx.violation("overlap_listing_row_unknown", ocase, {"paths": paths, "observed": got_rows[:6]})
            reached = [r for r in exp_rows if any(a in (".", "") or r[0] == a or r[0].startswith(a.rstrip("/") + "/") for a in paths)]
            if not set(reached) <= set(got_rows):
                ctx.violation("overlap_listing_incomplete", ocase, {"paths": paths, "missing": sorted(set(reached) - set(got_rows))[:6]})
            k = summary[2] if summary else None
            if summary is None or k != len(got_rows):
                ctx.violation("overlap_summary_does_not_match_listing", ocase, {"paths": paths, "listed_rows": len(got_rows), "summary": summary})
            exp_code = 1 if any(L > 60 for (_, L, _, _) in got_rows) else 0
            if code != exp_code:
                ctx.violation("exit_status", ocase, {"via": "overlapping arguments", "expected": exp_code, "observed": code})
        if any(L > 15 for _, ls in spec for L in ls):
            ctx.distinct(key)
        findings_and_totals(ctx, root, files, case)
    finally:
        shutil.rmtree(root, ignore_errors=True)


def findings_and_totals(ctx, root, files, case):
    """scan the same tree: LanguageTotals counters, profile, findings list in both formats"""
    from rich.console import Console
    from codelimit.common.Configuration import Configuration
    from codelimit.common.Scanner import scan_path
    from codelimit.common.report import format_markdown, format_text
    from codelimit.common.report.Report import Report

    Configuration.exclude = []
    try:
        cb = scan_path(Path(root))
        cb.aggregate()
        rep = Report(cb)
    except MonitorViolation:
        ctx.violation("threshold_contract", case, {"via": "scan_path", "why": _C["c"].why})
        return
    lengths = [L for _, ls in files.values() for L in ls]
    exp_profile = [0, 0, 0, 0]
    for L in lengths:
        exp_profile[cat(L)] += L
    if rep.quality_profile() != exp_profile:
        ctx.violation("quality_profile", case, {"expected": exp_profile, "observed": rep.quality_profile()})
    hard = sum(t.hard_to_maintain for t in cb.totals.values())
    unm = sum(t.unmaintainable for t in cb.totals.values())
    if hard != sum(1 for L in lengths if cat(L) == 2) or unm != sum(1 for L in lengths if cat(L) == 3):
        ctx.violation("language_counters", case, {"hard": hard, "unmaintainable": unm, "lengths": lengths})
    exp_findings = sorted([L for L in lengths if L > 30], reverse=True)
    for fmt in ("text", "markdown"):
        con = Console(record=True, width=400, force_terminal=False, color_system=None, file=io.StringIO())
        try:
            if fmt == "text":
                format_text.print_findings(con, rep, True)
            else:
                format_markdown.print_findings(rep, con, True)
        except MonitorViolation:
            ctx.violation("threshold_contract", case, {"via": "print_findings " + fmt, "why": _C["c"].why})
            continue
        ctx.count("monitor.findings_renderings")
        text = con.export_text()
        got = []
        for ln in text.split("\n"):
            if fmt == "text":
                m = LINE.match(ln.strip())
                if m:
                    got.append((int(m.group("len")), m.group("sym")))
            else:
                cells = [c.strip() for c in ln.strip().strip("|").split("|")]
                if len(cells) == 5 and cells[3].isdigit():
                    got.append((int(cells[3]), cells[4][0]))
        exp = [(L, ("✖" if fmt == "text" else "❌") if L > 60 else "⚠") for L in exp_findings]
        if got != exp:
            ctx.violation("findings_list", case, {"format": fmt, "expected": exp[:10], "observed": got[:10]})


def cli_case(ctx, spec):
    root = os.path.realpath(tempfile.mkdtemp(prefix="vf-c02-cli-"))
    try:
        files = build_tree(root, spec)
        order = sorted(files, key=lambda r: int(re.search(r"file(\d+)", r).group(1)))
        env = dict(os.environ, PYTHONPATH=REPO, COLUMNS="300")
        p = subprocess.run([PY, "-m", "codelimit", "check"] + order, cwd=root, env=env, stdout=subprocess.PIPE, stderr=subprocess.PIPE, timeout=300)
        ctx.eval()
        ctx.count("monitor.cli_runs")
        out = p.stdout.decode("utf-8", "replace")
        case = {"spec": [[l, list(ls)] for l, ls in spec], "cli": True}
        lengths = [L for _, ls in spec for L in ls]
        exp_code = 1 if any(L > 60 for L in lengths) else 0
        if p.returncode != exp_code:
            ctx.violation("cli_exit_status", case, {"expected": exp_code, "observed": p.returncode, "stderr": p.stderr.decode()[-300:]})
        rows, _ = parse_check_output(out)
        exp_rows = expected_listing(files, order)
        # in this image click hands quiet='False' (a truthy string) to the command, so nothing is printed when nothing is risky
        if exp_rows and [(r[0], r[3], r[4], r[5]) for r in rows] != exp_rows:
            ctx.violation("cli_listing", case, {"expected": exp_rows[:6], "observed": rows[:6]})
    finally:
        shutil.rmtree(root, ignore_errors=True)


_C = {}


def unit_cases(ctx, maxL):
    """every L through each threshold function directly (the contracts judge)"""
    from codelimit.common import utils as U
    from codelimit.common.CheckResult import CheckResult
    from codelimit.common.LanguageTotals import LanguageTotals
    from codelimit.common.Location import Location
    from codelimit.common.Measurement import Measurement
    from codelimit.common.SourceFileEntry import SourceFileEntry

    for L in list(range(1, maxL + 1)) + [1000, 5000, 10**6]:
        m = Measurement("f", Location(1, 1), Location(L, 2), L)
        ctx.eval()
        try:
            U.make_profile([m])
            U.make_count_profile([m])
            U.get_style_for_measurement(L)
            U.get_emoji_for_measurement(L)
            U.format_unit("f", L)
            U.format_unit("f", L, "a/b.py")
            CheckResult().add(Path("x.py"), [m])
            LanguageTotals("Python").add(SourceFileEntry("x.py", "0", "Python", L, [m]))
        except MonitorViolation:
            ctx.violation("threshold_contract", {"unit_length": L}, {"length": L, "why": _C["c"].why})
        ctx.count("cases.unit_lengths")


def run(shard, ctx):
    lang = shard["language"]
    rng = rng_for(shard["seed"], "c02", lang, shard["part"])
    with Contracts(ctx) as c:
        _C["c"] = c
        if shard["part"] == 0:
            unit_cases(ctx, shard["maxL"])
        # every single length as a real file of this language
        Ls = list(range(2 if lang == "Python" else 1, shard["maxL"] + 1))
        for i, L in enumerate(Ls):
            if i % shard["parts"] != shard["part"]:
                continue
            quiet = (L % 2 == 0)
            if L in BOUNDARY:
                for v in range(6):  # every boundary length under every physical file shape
                    end_to_end(ctx, [(lang, [L])], quiet, "single", [lang, L, quiet, v], variant=v)
                    ctx.count("cases.single_length_files")
                continue
            end_to_end(ctx, [(lang, [L])], quiet, "single", [lang, L, quiet])
            ctx.count("cases.single_length_files")
        # boundary combinations: 0, 1, 2 elements, spread over 1-2 files
        combos = [[]] + [[a] for a in BOUNDARY] + [[a, b] for a in BOUNDARY for b in BOUNDARY if a <= b]
        for i, combo in enumerate(combos):
            if i % shard["parts"] != shard["part"]:
                continue
            if i % 7 != canon.LANGS.index(lang):
                continue  # each combination once, rotating over the languages
            other = canon.LANGS[(canon.LANGS.index(lang) + 3) % 7]
            spec = [(lang, combo)] if len(combo) < 2 or rng.random() < 0.5 else [(lang, combo[:1]), (other, combo[1:])]
            spec = [(l, [max(2, x) if l == "Python" else x for x in ls]) for l, ls in spec]
            for quiet in (False, True):
                end_to_end(ctx, spec, quiet, "boundary", [sorted(combo), quiet, lang])
                ctx.count("cases.boundary_combinations")
        # random multisets over up to 6 files and 3 languages
        for i in range(shard["random"] // shard["parts"] + 1):
            nfiles = rng.randint(1, 6)
            langs = rng.sample(canon.LANGS, 3)
            spec = []
            total = 0
            for _ in range(nfiles):
                l = rng.choice(langs)
                k = rng.randint(0, 8)
                ls = [rng.choice(BOUNDARY + [rng.randint(2, 90), rng.randint(2, 20), 2, 3]) for _ in range(k)]
                total += k
                spec.append((l, ls))
            quiet = rng.random() < 0.5
            end_to_end(ctx, spec, quiet, "random", [[(l, sorted(ls)) for l, ls in spec], quiet])
            ctx.count("cases.random_multisets")
        for i in range(shard["cli"]):
            spec = [(lang, [rng.choice([12, 31, 45, 61, 75]) for _ in range(rng.randint(0, 3))]) for _ in range(rng.randint(1, 3))]
            cli_case(ctx, spec)


def replay(case, ctx):
    with Contracts(ctx) as c:
        _C["c"] = c
        if "unit_length" in case:
            unit_cases(ctx, 0)
            return
        spec = [(l, ls) for l, ls in case["spec"]]
        if case.get("cli"):
            cli_case(ctx, spec)
        else:
            end_to_end(ctx, spec, case.get("quiet", False), "replay", ["replay"], variant=case.get("variant"))


LEVEL_TEXT = ("Every length from 1 to the bound is realised as a real source file in each language and pushed through the real check "
              "pipeline, whose exit status, listing, summary and quiet behaviour are parsed and compared with a four-line reference "
              "classifier; the same classifier guards the threshold helper functions as post-conditions while those pipelines run. "
              "Exhaustive over the boundary region, sampling over multisets; right level because the faults are off-by-one "
              "comparisons that only show exactly at a boundary.")
LEVEL_NOTE = ("Trusted: the reference classifier (four comparisons taken from the property text); rich's verbatim rendering. "
              "The CLI's --quiet flag is not reachable through click in this image; quiet semantics are decided one call below it.")
