"""C09 - cache-assisted scans equal fresh scans over any edit history.

Monitor shape: differential monitor over histories + shadow model. After every `scan` step of a history the report
left on disk by the real scan_command (which reads the on-disk cache) is compared, modulo identifier and timestamp,
with a from-scratch scan of the same tree; a counting wrapper around Scanner._analyze_file shows which files were
re-analysed, and a shadow model of the cache ({path -> md5}, version) kept by the harness decides whether a reuse
was allowed. report/findings must refuse a report written by another version.
"""
from __future__ import annotations

import contextlib
import hashlib
import io
import itertools
import json
import os
import shutil
import subprocess
import tempfile
from pathlib import Path

from vf import REPO
from vf.cachelab import cache_path, canon_doc, fresh_doc, read_cache, run_scan_command
from vf.common import rng_for, short_tb

ID = "C09"
LEVEL = "exploration"
TECHNIQUE = ("history-based differential monitor: real scan_command with on-disk cache vs from-scratch scan after every scan step of "
             "an edit history; _analyze_file call counter + shadow cache model for the reuse decisions; bounded-exhaustive histories "
             "up to length 2 (quick) / 3 (thorough) over 32 operations, random longer ones; version refusal of report/findings")
RULE = ("one case = one history over {write(p,c), delete(p), rename(p,q), touch(p), swap(p,q), set_exclusions(e), "
        "replace_cache(other_version | near_version | odd_version | altered_checksums | swapped_entries)} on 3 paths x 3 contents, with a scan after every "
        "operation (exhaustive part) or at random places (random part, length 4-12); non-trivial = the history contains at least "
        "one operation that changes the tree or the cache between two scans; distinct = distinct histories")
ASSUMPTIONS = ["a same-version cache whose values were altered while keeping path and md5 is indistinguishable from a valid cache; such "
               "histories are not generated (altered caches always change version or checksums, or swap whole entries of files with "
               "different contents)",
               "reuse is never required: a change that disables caching keeps the property"]
BOUNDS = {"quick": dict(n=32, depth=2, random=160, cli=1), "thorough": dict(n=64, depth=3, random=20000, cli=8)}
EXHAUSTIVE = {"quick": True, "thorough": True}
EXHAUSTIVE_SCOPE = {t: f"all histories of length <= {b['depth']} over the 32 operations, scan after every operation" for t, b in BOUNDS.items()}
MINIMUM = {"quick": {"monitor.scans_compared": 3000, "monitor.reuse_decisions": 3000, "monitor.version_refusals": 100, "foreign_versions.near_version": 50, "foreign_versions.odd_version": 50},
           "thorough": {"monitor.scans_compared": 150000, "monitor.reuse_decisions": 150000, "monitor.version_refusals": 3000}}
PATHS = ["a.py", "src/a.py", "src/deep/c.py"]  # two paths share a base name: `mv a.py src/a.py` keeps name and content
PY = "/venv/bin/python"


def content(i):
    n = [3, 35, 64][i]
    body = "".join(f"    v{k} = a + {k}\n" for k in range(n - 2))
    return (f"# content {i}\ndef first{i}(a, b):\n{body}    return a\n\n\ndef second{i}(x):\n    return x * {i}\n").encode()


CONTENTS = [content(0), content(1), content(2)]
EXCLUSIONS = [[], ["src/deep"], ["/a.py"]]


def operations():
    ops = []
    for p in range(3):
        for c in range(3):
            ops.append(("write", p, c))
    for p in range(3):
        ops.append(("delete", p))
        ops.append(("touch", p))
    for p, q in itertools.permutations(range(3), 2):
        ops.append(("rename", p, q))
    for p, q in itertools.combinations(range(3), 2):
        ops.append(("swap", p, q))
    for e in range(3):
        ops.append(("set_exclusions", e))
    for k in ("other_version", "near_version", "odd_version", "altered_checksums", "swapped_entries"):
        ops.append(("replace_cache", k))
    return ops


OPS = operations()


def shards(tier, seed):
    b = BOUNDS[tier]
    return [{"part": i, "parts": b["n"], **b} for i in range(b["n"])]


class World:
    def __init__(self, ctx, history):
        self.ctx = ctx
        self.history = history
        self.root = os.path.realpath(tempfile.mkdtemp(prefix="vf-c09-"))
        self.exclusions = []
        self.shadow = None  # {"version": str, "entries": {rel: md5}} as the harness believes the cache file to be
        self.mtime = 1_700_000_000
        self.old = 1_000_000_000
        self.preserve_old_mtime = (len(json.dumps(history)) % 3) != 0  # two thirds of the histories; the rest keeps "now"
        for i, p in enumerate(PATHS):
            self.write(p, CONTENTS[i])

    def close(self):
        shutil.rmtree(self.root, ignore_errors=True)

    def abs(self, rel):
        return os.path.join(self.root, *rel.split("/"))

    def write(self, rel, data):
        os.makedirs(os.path.dirname(self.abs(rel)), exist_ok=True)
        with open(self.abs(rel), "wb") as f:
            f.write(data)
        # content is what identifies a file, not its timestamp: written files keep an OLD modification time, as after cp -p,
        # rsync -t, an archive extraction or a back-dating tool; only `touch` moves a file's time forward
        self.old += 1
        if self.preserve_old_mtime:
            os.utime(self.abs(rel), (self.old, self.old))

    def read(self, rel):
        try:
            with open(self.abs(rel), "rb") as f:
                return f.read()
        except FileNotFoundError:
            return None

    def apply(self, op):
        kind = op[0]
        if kind == "write":
            self.write(PATHS[op[1]], CONTENTS[op[2]])
        elif kind == "delete":
            with contextlib.suppress(FileNotFoundError):
                os.unlink(self.abs(PATHS[op[1]]))
        elif kind == "touch":
            if os.path.exists(self.abs(PATHS[op[1]])):
                self.mtime += 100
                os.utime(self.abs(PATHS[op[1]]), (self.mtime, self.mtime))
        elif kind == "rename":
            a, b = self.abs(PATHS[op[1]]), self.abs(PATHS[op[2]])
            if os.path.exists(a):
                os.makedirs(os.path.dirname(b), exist_ok=True)
                os.replace(a, b)
        elif kind == "swap":
            a, b = self.read(PATHS[op[1]]), self.read(PATHS[op[2]])
            for rel, data in ((PATHS[op[1]], b), (PATHS[op[2]], a)):
                if data is None:
                    with contextlib.suppress(FileNotFoundError):
                        os.unlink(self.abs(rel))
                else:
                    self.write(rel, data)
        elif kind == "set_exclusions":
            self.exclusions = EXCLUSIONS[op[1]]
        elif kind == "replace_cache":
            self.replace_cache(op[1])

    def replace_cache(self, how):
        if not os.path.exists(cache_path(self.root)) or self.shadow is None:
            return
        doc = read_cache(self.root)
        files = doc["codebase"]["files"]
        if how in ("other_version", "near_version", "odd_version"):
            from codelimit.common.report.Report import Report

            cur = Report.VERSION
            self.variant = getattr(self, "variant", 0) + 1 + len(self.history)
            if how == "other_version":
                ver = ["0.0.1", "99.0.0", "1.0"][self.variant % 3]
            elif how == "near_version":
                # another release of the same series: same major.minor, different patch; next/previous minor
                parts = cur.split(".")
                near = []
                if parts[-1].isdigit():
                    n = int(parts[-1])
                    near += [".".join(parts[:-1] + [str(n + 1)]), ".".join(parts[:-1] + [str(n + 10)])]
                    if n > 0:
                        near.append(".".join(parts[:-1] + [str(n - 1)]))
                if len(parts) >= 2 and parts[-2].isdigit():
                    near.append(".".join(parts[:-2] + [str(int(parts[-2]) + 1), "0"]))
                ver = near[self.variant % len(near)] if near else cur + ".1"
            else:
                odd = [None, "<missing>", "", " " + cur, cur + " ", "v" + cur, cur + ".dev1", cur + "-other", cur + "+local", cur.upper() + "A",
                       cur + ".0", "0" + cur]
                ver = odd[self.variant % len(odd)]
            if ver == "<missing>":
                doc.pop("version", None)
                ver = None
            else:
                doc["version"] = ver
            for v in files.values():  # stale values that must not survive
                v["loc"] = 99
                for m in v["measurements"]:
                    m["value"] = 99
            self.shadow = {"version": ver if ver is not None else "<none>", "entries": dict(self.shadow["entries"])}
            self.ctx.count("foreign_versions." + how)
        elif how == "altered_checksums":
            for k, v in files.items():
                v["checksum"] = hashlib.md5(("x" + v["checksum"]).encode()).hexdigest()
                v["loc"] = 77
                for m in v["measurements"]:
                    m["value"] = 77
            self.shadow = {"version": self.shadow["version"], "entries": {k: v["checksum"] for k, v in files.items()}}
        elif how == "swapped_entries":
            keys = sorted(files)
            if len(keys) >= 2 and files[keys[0]]["checksum"] != files[keys[1]]["checksum"]:
                files[keys[0]], files[keys[1]] = files[keys[1]], files[keys[0]]
                ent = dict(self.shadow["entries"])
                ent[keys[0]], ent[keys[1]] = files[keys[0]]["checksum"], files[keys[1]]["checksum"]
                self.shadow = {"version": self.shadow["version"], "entries": ent}
        with open(cache_path(self.root), "w") as f:
            json.dump(doc, f)

    def scan_and_judge(self, step):
        from codelimit.common.report.Report import Report

        ctx = self.ctx
        case = {"history": self.history, "failed_at_step": step}
        current = Report.VERSION
        before = {rel: hashlib.md5(self.read(rel)).hexdigest() for rel in PATHS if self.read(rel) is not None}
        err, analysed = run_scan_command(self.root, self.exclusions)
        ctx.eval()
        if err is not None:
            ctx.violation("scan_command_raised", case, {"error": f"{type(err).__name__}: {err}"})
            self.shadow = None
            return False
        ctx.count("monitor.scans_compared")
        try:
            got = read_cache(self.root)
        except Exception as e:
            ctx.violation("cache_unreadable_after_scan", case, {"error": f"{type(e).__name__}: {e}"})
            self.shadow = None
            return False
        want = fresh_doc(self.root, self.exclusions)
        if canon_doc(got) != canon_doc(want):
            cg, cw = canon_doc(got), canon_doc(want)
            field = next((k for k in cw if cw[k] != cg.get(k)), None)
            detail = {"differs_in": field}
            if field == "files":
                bad = [k for k in set(cw["files"]) | set(cg["files"]) if cw["files"].get(k) != cg["files"].get(k)]
                detail["files"] = sorted(bad)[:4]
                if bad:
                    k = sorted(bad)[0]
                    detail["fresh"] = {x: (cw["files"].get(k) or {}).get(x) for x in ("checksum", "loc")}
                    detail["cached_scan"] = {x: (cg["files"].get(k) or {}).get(x) for x in ("checksum", "loc")}
            ctx.violation("cached_scan_differs_from_fresh_scan", case, detail)
        # reuse decisions
        scanned = sorted(want["codebase"]["files"])
        for rel in scanned:
            ctx.count("monitor.reuse_decisions")
            reused = rel not in analysed
            allowed = (self.shadow is not None and self.shadow["version"] == current
                       and self.shadow["entries"].get(rel) == before.get(rel))
            if reused:
                ctx.count("reuse.observed")
                if not allowed:
                    ctx.violation("forbidden_reuse", case, {"file": rel, "shadow_cache": self.shadow, "md5_now": before.get(rel)})
            else:
                ctx.count("reuse.reanalysed_although_allowed" if allowed else "reuse.reanalysed_as_required")
        self.shadow = {"version": current, "entries": {k: v["checksum"] for k, v in got["codebase"]["files"].items()}}
        return True


def version_refusal(ctx, root, case):
    """report_command / findings_command on a cache written by another version must refuse (typer.Exit(1))"""
    import typer
    from codelimit.commands.findings import findings_command
    from codelimit.commands.report import report_command
    from codelimit.common.report.ReportFormat import ReportFormat

    from codelimit.common.report.Report import Report

    doc = read_cache(root)
    cur = Report.VERSION
    parts = cur.split(".")
    bump = ".".join(parts[:-1] + [str(int(parts[-1]) + 1)]) if parts[-1].isdigit() else cur + ".1"
    variants = ["0.0.1", bump, cur + ".dev1", "<missing>", "", cur + " "]
    ver = variants[len(json.dumps(case["history"])) % len(variants)]
    if ver == "<missing>":
        doc.pop("version", None)
    else:
        doc["version"] = ver
    case = dict(case, foreign_version=ver)
    with open(cache_path(root), "w") as f:
        json.dump(doc, f)
    for name, fn in (("report", lambda: report_command(Path(root), ReportFormat.text, None)),
                     ("findings", lambda: findings_command(Path(root), False, ReportFormat.text))):
        buf = io.StringIO()
        ctx.eval()
        try:
            with contextlib.redirect_stdout(buf):
                fn()
            ctx.violation("other_version_report_displayed", case, {"command": name, "output": buf.getvalue()[-200:]})
        except typer.Exit as e:
            ctx.count("monitor.version_refusals")
            if e.exit_code == 0:
                ctx.violation("other_version_refusal_exit_0", case, {"command": name})
        except Exception as e:
            ctx.violation("version_check_exception", case, {"command": name, "error": f"{type(e).__name__}: {e}"})


def run_history(ctx, history, scan_after_each=True, scan_points=None):
    w = World(ctx, history)
    try:
        w.scan_and_judge(-1)
        changed = False
        for i, op in enumerate(history):
            w.apply(list(op))
            if scan_after_each or (scan_points and i in scan_points):
                w.scan_and_judge(i)
        if history:
            ctx.distinct(history)
        if (len(history) + sum(len(str(o)) for o in history)) % 3 == 0 and os.path.exists(cache_path(w.root)):
            version_refusal(ctx, w.root, {"history": history, "version_refusal": True})
    finally:
        w.close()


def cli_history(ctx, rng):
    """the same differential through the CLI as a subprocess (default Live display path)"""
    w = World(ctx, [["cli"]])
    try:
        env = dict(os.environ, PYTHONPATH=REPO, COLUMNS="200")
        for step in range(4):
            p = subprocess.run([PY, "-m", "codelimit", "scan", "."], cwd=w.root, env=env, stdout=subprocess.PIPE, stderr=subprocess.PIPE, timeout=300)
            ctx.eval()
            ctx.count("monitor.cli_scans")
            if p.returncode != 0:
                ctx.violation("cli_scan_failed", {"history": [["cli"]], "cli": True}, {"rc": p.returncode, "stderr": p.stderr.decode("utf-8", "replace")[-300:]})
                return
            got = read_cache(w.root)
            want = fresh_doc(w.root, [])
            if canon_doc(got) != canon_doc(want):
                ctx.violation("cli_cached_scan_differs", {"history": [["cli"]], "cli": True}, {"step": step})
            op = list(rng.choice(OPS))
            if op[0] == "set_exclusions":
                continue
            w.shadow = {"version": got.get("version"), "entries": {k: v["checksum"] for k, v in got["codebase"]["files"].items()}}
            w.apply(op)
    finally:
        w.close()


def run(shard, ctx):
    rng = rng_for(shard["seed"], "c09", shard["part"])
    k = 0
    for depth in range(1, shard["depth"] + 1):
        for h in itertools.product(OPS, repeat=depth):
            k += 1
            if k % shard["parts"] != shard["part"]:
                continue
            run_history(ctx, [list(o) for o in h])
            ctx.count(f"histories.length{depth}")
    for i in range(shard["random"] // shard["parts"]):
        n = rng.randint(4, 12)
        h = [list(rng.choice(OPS)) for _ in range(n)]
        points = {j for j in range(n) if rng.random() < 0.4} | {n - 1}
        run_history(ctx, h, scan_after_each=False, scan_points=points)
        ctx.count("histories.random")
    for i in range(shard["cli"]):
        cli_history(ctx, rng)
    ctx.sample({"history": [["write", 0, 1], ["replace_cache", "other_version"]], "paths": PATHS,
                "meaning": "scan; write a.py := content1; scan; replace cache by one of version 0.0.1 with altered values; scan"})


def replay(case, ctx):
    h = case["history"]
    if case.get("cli"):
        cli_history(ctx, rng_for(0, "c09r"))
    else:
        run_history(ctx, h)


LEVEL_TEXT = ("Every history up to the stated length over 32 file/cache operations is executed against the real scan_command with its "
              "real on-disk cache, and after every scan the result is compared with a from-scratch scan while a call counter and a "
              "shadow cache model judge each reuse decision; longer random histories and CLI subprocess histories on top. "
              "Bounded-exhaustive exploration of histories; right level because cache faults need a specific sequence "
              "(edit after scan, rename, foreign cache) that enumeration reaches.")
LEVEL_NOTE = ("Trusted: the from-scratch scan as reference; md5 as content identity; the shadow model's transition rules "
              "(10 lines per operation).")
