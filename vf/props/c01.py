"""C01 - exact function discovery, span and length on canonical programs.

Monitor shape: contract on the real scan_file (icontract `ensure`) whose post-condition compares the returned
measurements with the ground truth that the generator knows by construction (vf/gen/canon.py). 5 % of the
programs are additionally pushed through scan_path on a temporary tree.
"""
from __future__ import annotations

import os
import shutil
import tempfile
from pathlib import Path

from vf import MonitorViolation, pipeline
from vf.common import clip, ensure, patch_everywhere, rng_for, short_tb, Unpatch
from vf.gen import canon

ID = "C01"
LEVEL = "exploration"
TECHNIQUE = ("runtime contract (icontract ensure) on the real scan_file / scan_path: generated canonical programs "
             "in 7 languages with by-construction ground truth (name, span, length of every function)")
RULE = ("programs are rendered from a token-level model in which every token is tagged with its owning function, so the "
        "expected list of (name, start, end, length) is known without running codelimit; one case = one program "
        "(language, seed, feature set); a case is non-trivial when it has at least 2 functions or a nested function; "
        "distinct = distinct program texts")
ASSUMPTIONS = ["Pygments token types are taken as given; a generated program whose identifiers/comments are not lexed as "
               "Name/Comment is discarded and counted as generator_invalid (never judged)",
               "the canonical grammar is the stated finite set of constructs (DESIGN.md 3.1); constructs outside it are not claimed"]
BOUNDS = {"quick": dict(per_lang=160, n=28, ablate=12), "thorough": dict(per_lang=6000, n=112, ablate=400)}
MINIMUM = {"quick": {"monitor.scan_file_contract": 800, "monitor.scan_path": 20},
           "thorough": {"monitor.scan_file_contract": 30000, "monitor.scan_path": 1000}}
KNOWN_FEATURES = {}  # finding id -> feature whose presence triggers it (filled from known_findings.json semantics)


def shards(tier, seed):
    b = BOUNDS[tier]
    per = b["n"] // len(canon.LANGS)
    out = []
    for lang in canon.LANGS:
        for i in range(per):
            out.append({"language": lang, "part": i, "parts": per, "count": b["per_lang"] // per, "ablate": b["ablate"] // per})
    return out


# --------------------------------------------------------------------------------------------------
def self_check(prog):
    """The lexer must agree with the generator on what is an identifier and what is a comment.
    Returns None when fine, else a short reason (program is discarded, not judged)."""
    from pygments.token import Comment, Name, String

    raw = pipeline.raw_tokens(prog.language, prog.text)
    text = prog.text
    kind_at = [None] * (len(text) + 1)
    start_at = {}
    for off, tt, val in raw:
        start_at[off] = (tt, val)
        for i in range(off, off + len(val)):
            kind_at[i] = tt
    line_off = [0]
    for ln in text.split("\n"):
        line_off.append(line_off[-1] + len(ln) + 1)
    for t in prog.tokens:
        off = line_off[t.line - 1] + t.col - 1
        if not t.code:
            for i in range(off, off + len(t.text)):
                if not text[i].isspace() and (kind_at[i] is None or kind_at[i] not in Comment):
                    return "comment_not_lexed_as_comment"
            continue
        if t.kind == "name":
            tv = start_at.get(off)
            if tv is None or tv[0] not in Name or tv[1] != t.text:
                # C++ 'Klass::name': Pygments yields one Name.Function token in some contexts and Klass, ::, name in others;
                # the lexer decides what the name token is, the ground truth follows it
                tr = next((x for x in prog.truth if x.qual_prefix and x.name == t.text and x.start == (t.line, t.col)), None)
                tv2 = start_at.get(off + len(tr.qual_prefix)) if tr else None
                if tr and tv2 and tv2[0] in Name and tv2[1] == t.text[len(tr.qual_prefix):]:
                    tr.name = tv2[1]
                    tr.start = (t.line, t.col + len(tr.qual_prefix))
                    tr.qual_prefix = ""
                    continue
                return "identifier_not_lexed_as_name"
        elif t.kind == "multiline":
            tv = start_at.get(off)
            if tv is None or tv[1] != t.text:
                return "multiline_construct_not_one_token"
        elif t.kind == "doc":
            tv = start_at.get(off)
            if tv is None or tv[0] not in String or tv[1] != t.text:
                return "docstring_not_one_token"
        for i in range(off, off + len(t.text)):
            if kind_at[i] is not None and kind_at[i] in Comment:
                return "code_lexed_as_comment"
    return None


class Oracle:
    """icontract post-condition on the real scan_file; the expected list is registered per call."""

    def __init__(self, ctx):
        self.ctx = ctx
        self.expected = None
        self.last = None
        from codelimit.common import Scanner

        self.Scanner = Scanner

        def matches_ground_truth(result):
            ctx.count("monitor.scan_file_contract")
            self.last = pipeline.measurements_as_lists(result)
            return self.expected is None or self.last == self.expected

        def wrap(f):
            return ensure(f, matches_ground_truth, ID)

        self.patch = Unpatch(Scanner, "scan_file", wrap)

    def __enter__(self):
        self.patch.__enter__()
        return self

    def __exit__(self, *a):
        return self.patch.__exit__(*a)

    def run(self, prog):
        """returns None if the contract held, else a detail dict"""
        self.expected = [t.as_list() for t in prog.truth]
        self.last = None
        try:
            from codelimit.common.lexer_utils import lex
            from codelimit.languages import Languages

            tokens = lex(pipeline.lexer_for(prog.language), prog.text, False)
            self.Scanner.scan_file(tokens, Languages.by_name[prog.language])
            return None
        except MonitorViolation:
            return diff_detail(self.expected, self.last)
        except Exception as e:
            return {"error": f"{type(e).__name__}: {e}", "tb": short_tb(5)}
        finally:
            self.expected = None


def diff_detail(expected, got):
    es = {repr(e) for e in expected}
    gs = {repr(g) for g in got}
    return {"expected_not_reported": [e for e in expected if repr(e) not in gs][:6],
            "reported_not_expected": [g for g in got if repr(g) not in es][:6],
            "n_expected": len(expected), "n_reported": len(got)}


def case_of(prog):
    return {"language": prog.language, "seed": prog.seed, "features": list(prog.features)}


def check_scan_path(ctx, prog):
    """the same program through scan_path on a temp tree: rel path -> measurements"""
    from codelimit.common.Scanner import scan_path
    from codelimit.common.Configuration import Configuration

    d = tempfile.mkdtemp(prefix="vf-c01-")
    try:
        sub = os.path.join(d, "src", "pkg")
        os.makedirs(sub)
        name = "sample" + canon.EXT[prog.language]
        with open(os.path.join(sub, name), "w") as f:
            f.write(prog.text)
        Configuration.exclude = []
        cb = scan_path(Path(d))
        ctx.count("monitor.scan_path")
        rel = os.path.join("src", "pkg", name)
        if list(cb.files) != [rel]:
            ctx.violation("scan_path_files", case_of(prog), {"files": list(cb.files), "expected": [rel]})
            return
        got = pipeline.measurements_as_lists(cb.files[rel].measurements())
        exp = [t.as_list() for t in prog.truth]
        if got != exp:
            ctx.violation("scan_path_measurements", case_of(prog), diff_detail(exp, got))
    finally:
        shutil.rmtree(d, ignore_errors=True)


def judge(ctx, oracle, prog, attribute=True):
    reason = self_check(prog)
    if reason:
        ctx.count("generator_invalid." + reason)
        return None
    ctx.eval()
    detail = oracle.run(prog)
    n = len(prog.truth)
    ctx.count("functions.compared", n)
    depth = max([t.depth for t in prog.truth], default=0)
    ctx.maxi("max.nesting_depth", depth + 1)
    for t in prog.truth:
        ctx.count("functions.depth%d" % min(t.depth, 4))
        ln = t.length
        ctx.count("lengths." + ("1-15" if ln <= 15 else "16-30" if ln <= 30 else "31-60" if ln <= 60 else "61-100" if ln <= 100 else ">100"))
        ctx.maxi("max.function_length", ln)
    for k in prog.used:
        ctx.count("feature." + k)
    if n >= 2 or depth >= 1:
        ctx.distinct(prog.text)
    if detail is None:
        return True
    if attribute:
        mech = attribute_by_ablation(oracle, prog)
    else:
        mech = None
    detail["program_head"] = clip(prog.text, 300)
    ctx.violation("ground_truth_mismatch", case_of(prog), detail, mechanism=mech)
    return False


def attribute_by_ablation(oracle, prog):
    """Known findings are keyed by the generator feature that triggers them. The violating program is P(seed, F);
    with K = F & known features: if P(seed, F - K) still violates the violation is NOT attributed (unlisted);
    otherwise it is attributed to the first k in K for which P(seed, (F - K) + {k}) violates."""
    from vf.runner import load_known

    known = {k["feature"]: k["id"] for k in load_known()
             if k["property"] == ID and k["status"] == "open" and k.get("feature")
             and prog.language in k.get("languages", [prog.language])}
    K = [f for f in prog.features if f in known]
    if not K:
        return None
    base = [f for f in prog.features if f not in K]
    p0 = canon.generate(prog.language, prog.seed, base)
    if self_check(p0) is None and oracle.run(p0) is not None:
        return None
    for k in K:
        pk = canon.generate(prog.language, prog.seed, base + [k])
        if self_check(pk) is None and oracle.run(pk) is not None:
            return known[k]
    return None


def feature_sets(rng, i):
    """default: everything on; then single-feature ablations and random subsets, so every feature is seen both ways"""
    F = list(canon.FEATURES)
    if i % 4 == 0:
        return F
    if i % 4 == 1:
        off = F[(i // 4) % len(F)]
        return [f for f in F if f != off]
    if i % 4 == 2:
        return [f for f in F if rng.random() < 0.7]
    return [f for f in F if rng.random() < 0.4]


def known_off_features(language):
    from vf.runner import load_known

    return {k["feature"] for k in load_known() if k["property"] == ID and k["status"] == "open" and k.get("feature")
            and language in k.get("languages", [language])}


def witness_pass(ctx, lang):
    """hand-checked witnesses of repaired defects (known_findings.json, status fixed): the check fails again if one returns"""
    from vf.runner import load_known

    for k in load_known():
        w = k.get("witness", {})
        if w.get("language") != lang or "expect" not in w:
            continue
        ctx.eval()
        ctx.count("monitor.fixed_defect_witnesses")
        try:
            _, ms = pipeline.analyze(lang, w["source"])
            got = pipeline.measurements_as_lists(ms)
        except Exception as e:
            got = f"{type(e).__name__}: {e}"
        if got != w["expect"]:
            ctx.violation("fixed_defect_returned", {"witness_of": k["id"], "language": lang, "source": w["source"]},
                          {"finding": k["id"], "expected": w["expect"], "observed": got})


def run(shard, ctx):
    lang = shard["language"]
    rng = rng_for(shard["seed"], "c01", lang, shard["part"])
    off = known_off_features(lang)
    if shard["part"] == 0:
        witness_pass(ctx, lang)
    with Oracle(ctx) as oracle:
        for i in range(shard["count"]):
            seed = f"{shard['seed']}:{shard['part']}:{i}"
            feats = [f for f in feature_sets(rng, i) if f not in off]
            kw = {}
            if i % 9 == 5:
                kw["max_depth"] = 6
            prog = canon.generate(lang, seed, feats, **kw)
            prog.seed = {"s": seed, "kw": kw}
            ok = judge(ctx, oracle, prog)
            if i == 0:
                ctx.sample({"language": lang, "seed": seed, "functions": [t.as_list() for t in prog.truth][:6],
                            "text_head": clip(prog.text, 500)})
            if ok is not None and i % 20 == 7:
                check_scan_path(ctx, prog)
        # separate small pass with the features of open known findings switched on: prints KNOWN-FINDING lines and
        # notices when a finding stops reproducing
        if off:
            for i in range(shard["ablate"]):
                seed = f"{shard['seed']}:{shard['part']}:k{i}"
                prog = canon.generate(lang, seed, list(canon.FEATURES))
                prog.seed = {"s": seed, "kw": {}}
                ctx.count("cases.known_feature_pass")
                judge(ctx, oracle, prog)


def replay(case, ctx):
    if "witness_of" in case:
        witness_pass(ctx, case["language"])
        return
    with Oracle(ctx) as oracle:
        s = case["seed"]
        prog = canon.generate(case["language"], s["s"], case["features"], **s.get("kw", {}))
        prog.seed = s
        judge(ctx, oracle, prog)


def classify(v):
    return v.get("mechanism")


LEVEL_TEXT = ("Thousands of generated canonical programs per language (all feature combinations of the stated grammar, "
              "nesting to depth 6, body lengths 1 to 400) are analysed by the real scan_file under a contract that demands "
              "exactly the by-construction list of functions, spans and lengths. Exploration by sampling a grammar; the "
              "right level because the property quantifies over programs and the failures are interactions of constructs.")
LEVEL_NOTE = ("Trusted: Pygments token types; the generator's ground truth (hand-checked on six programs, and every defect "
              "it reported on the pinned tree was reproduced by hand). Open findings are attributed by feature ablation only.")
