"""C10 - a damaged or partial cache never breaks or taints the next scan.

Monitor shape: fault and crash-point injection with an invariant checked after recovery. The cache file of a scanned
tree is put into a faulted state (truncation at byte offsets, empty, not JSON, keys deleted at every level, values
replaced by wrong JSON types, missing file / marker files), or a scan's own cache write is interrupted after k bytes
(Path.write_text wrapped from the harness to stop and raise), and then the real scan_command must complete, leave a
complete valid cache, and that cache must equal the from-scratch report.
"""
from __future__ import annotations

import copy
import errno
import json
import os
import shutil
import signal
import subprocess
import tempfile
import time
from pathlib import Path

from vf import REPO
from vf.cachelab import cache_path, canon_doc, fresh_doc, read_cache, run_scan_command
from vf.common import rng_for

ID = "C10"
LEVEL = "fault_enumeration"
TECHNIQUE = ("fault enumeration on the on-disk cache (every/stratified truncation offset, structural deletions, wrong value types, "
             "missing files) and crash-point injection into the cache write (Path.write_text stopped after k bytes, OSError / "
             "KeyboardInterrupt; SIGKILL of a CLI subprocess in the thorough tier), each followed by a real scan_command whose "
             "result is compared with a from-scratch scan")
RULE = ("one case = (small tree, fault) or (small tree, sequence fault-scan-fault-scan); faults: truncation of the cache file at a byte "
        "offset (all offsets in the thorough tier, stratified in quick), empty file, non-JSON texts, every key deleted at every level, "
        "every value replaced by each wrong JSON type, every single byte overwritten by a byte that is invalid UTF-8, cache directory without the file / without CACHEDIR.TAG / without .gitignore, "
        "interrupted write after k bytes with OSError(ENOSPC) or KeyboardInterrupt (simulated by wrapping Path.write_text) and REAL "
        "interrupted writes (RLIMIT_FSIZE = k makes the operating system cut the scan's own cache write short) in four scenarios "
        "(first scan, unchanged rescan, same-length edit, other edit); "
        "non-trivial = the faulted file differs from the valid cache; distinct = distinct (tree, fault)")
ASSUMPTIONS = ["'complete, valid cache' is read as: the report file parses as JSON and equals the fresh-scan report; marker files missing "
               "after a fault are reported in the evidence, not judged",
               "faults that keep a structurally valid same-version cache with altered numbers are outside the property (see C09)"]
BOUNDS = {"quick": dict(n=32, offsets=0, struct=1, crash=400, seq=160, kills=0, real=640),
          "thorough": dict(n=64, offsets=0, struct=1, crash=6000, seq=4000, kills=40, real=12000)}
EXHAUSTIVE = {"quick": True, "thorough": True}
EXHAUSTIVE_SCOPE = {t: "every truncation offset of 3 small reports; all single-key deletions and single-value type replacements; "
                       "crash points, sequences and kills are sampled" for t in BOUNDS}
MINIMUM = {"quick": {"monitor.recovery_scans": 5000, "faults.truncation": 3000, "faults.key_deleted": 150, "faults.wrong_type": 1200, "faults.interrupted_write": 250, "faults.real_interrupted_write": 400, "faults.corrupt_byte": 3000,
                     "faults.real_interrupted_write.same_length_edit": 100},
           "thorough": {"monitor.recovery_scans": 20000, "faults.truncation": 3000, "faults.key_deleted": 150, "faults.wrong_type": 1200, "faults.interrupted_write": 4000}}
PY = "/venv/bin/python"
TREES = [
    {"a.py": "def f(a):\n    return a\n", "src/b.js": "function g(a) {\n  return a;\n}\n"},
    {"one.c": "int f(int a) {\n  return a;\n}\nint g(void) {\n  return 2;\n}\n"},
    {"p/q/r.java": "class A {\n  int f() {\n    return 1;\n  }\n}\n", "p/x.py": "def h():\n    x = 1\n    return x\n", "t.ts": "function k(a: number) {\n  return a;\n}\n"},
]
TREES.append({
    "alpha.py": "def a1(x):\n    return x\n\n\ndef a2(x):\n    y = x\n    return y\n\n\ndef a3(x):\n    return x\n",
    "beta.py": "def b1(x):\n    return x\n\n\ndef b2(x):\n    y = x\n    z = y\n    return z\n\n\ndef b3(x):\n    return x\n",
    "pkg/gamma.js": "function g1(a) {\n  return a;\n}\nfunction g2(a) {\n  let b = a;\n  return b;\n}\n",
})
WRONG = [None, 1, "s", [], {}, True, 1.5]


def shards(tier, seed):
    b = BOUNDS[tier]
    return [{"part": i, "parts": b["n"], **b} for i in range(b["n"])]


def make_tree(files):
    root = os.path.realpath(tempfile.mkdtemp(prefix="vf-c10-"))
    for rel, text in files.items():
        p = os.path.join(root, *rel.split("/"))
        os.makedirs(os.path.dirname(p), exist_ok=True)
        with open(p, "w") as f:
            f.write(text)
    return root


def paths_of(doc, prefix=()):
    """all key paths of a JSON value (dict keys and list indices)"""
    out = []
    if isinstance(doc, dict):
        for k, v in doc.items():
            out.append(prefix + (k,))
            out += paths_of(v, prefix + (k,))
    elif isinstance(doc, list):
        for i, v in enumerate(doc):
            out.append(prefix + (i,))
            out += paths_of(v, prefix + (i,))
    return out


def get_at(doc, path):
    for k in path:
        doc = doc[k]
    return doc


def mutate(doc, path, how, value=None):
    d = copy.deepcopy(doc)
    parent = get_at(d, path[:-1])
    if how == "delete":
        del parent[path[-1]]
    else:
        parent[path[-1]] = value
    return d


def judge_recovery(ctx, root, case, label):
    """run the real scan on the faulted state and compare with a from-scratch scan"""
    ctx.eval()
    err, _ = run_scan_command(root)
    ctx.count("monitor.recovery_scans")
    if err is not None:
        ctx.violation("scan_failed_on_damaged_cache", case, {"fault": label, "error": f"{type(err).__name__}: {str(err)[:200]}"})
        return False
    try:
        got = read_cache(root)
    except Exception as e:
        ctx.violation("cache_left_invalid", case, {"fault": label, "error": f"{type(e).__name__}: {str(e)[:200]}"})
        return False
    want = fresh_doc(root)
    if canon_doc(got) != canon_doc(want):
        cg, cw = canon_doc(got), canon_doc(want)
        field = next((k for k in cw if cw[k] != cg.get(k)), None)
        ctx.violation("tainted_report", case, {"fault": label, "differs_in": field,
                                               "fresh": json.dumps(cw.get(field), default=str)[:300], "after_fault": json.dumps(cg.get(field), default=str)[:300]})
        return False
    for marker in ("CACHEDIR.TAG", ".gitignore"):
        if not os.path.exists(os.path.join(root, ".codelimit_cache", marker)):
            ctx.count("info.marker_file_missing_after_recovery." + marker)
    return True


def with_valid_cache(files):
    root = make_tree(files)
    err, _ = run_scan_command(root)
    if err is not None:
        shutil.rmtree(root, ignore_errors=True)
        raise err
    return root, open(cache_path(root)).read()


def static_fault(ctx, ti, valid_text, root, label, kind, new_text=None, action=None):
    """put the cache into a faulted state, run the recovery scan, then restore the valid cache"""
    case = {"tree": ti, "fault": label}
    cdir = os.path.join(root, ".codelimit_cache")
    if new_text is not None:
        with open(cache_path(root), "w") as f:
            f.write(new_text)
        if new_text != valid_text:
            ctx.distinct([ti, label])
    if action is not None:
        action(cdir)
        ctx.distinct([ti, label])
    ctx.count("faults." + kind)
    judge_recovery(ctx, root, case, label)
    # restore a valid state for the next fault
    os.makedirs(cdir, exist_ok=True)
    with open(cache_path(root), "w") as f:
        f.write(valid_text)


def structural_faults(valid_text):
    doc = json.loads(valid_text)
    out = [("empty", "empty_file", ""), ("non_json", "non_json:text", "hello"), ("non_json", "non_json:{", "{"), ("non_json", "non_json:[]", "[]"),
           ("non_json", "non_json:null", "null"), ("non_json", "non_json:123", "123"), ("non_json", "non_json:string", '"str"'),
           ("non_json", "non_json:{}", "{}"), ("non_json", "non_json:nul_bytes", "\x00\x00\x00"), ("non_json", "non_json:bom", "﻿" + valid_text),
           ("non_json", "non_json:trailing_garbage", valid_text + "}"), ("non_json", "non_json:doubled", valid_text + valid_text)]
    for path in paths_of(doc):
        if not isinstance(path[-1], int):
            # "missing keys at every level": object keys only. Dropping a list element (one measurement, one folder entry) leaves a
            # structurally valid same-version cache with altered content, which no reader can tell from a valid one (see C09).
            out.append(("key_deleted", "delete:" + "/".join(map(str, path)), json.dumps(mutate(doc, path, "delete"))))
        cur = get_at(doc, path)
        for w in WRONG:
            if type(w) is type(cur) and not isinstance(cur, (dict, list)):
                continue
            if isinstance(cur, (dict, list)) and type(w) is type(cur):
                continue
            out.append(("wrong_type", f"type:{'/'.join(map(str, path))}:={json.dumps(w)}", json.dumps(mutate(doc, path, "set", w))))
    return out


class InterruptedWrite:
    """crash-point injection: the write of a given file stops after k characters and raises"""

    def __init__(self, target_name, k, exc):
        self.target, self.k, self.exc = target_name, k, exc
        self.orig = Path.write_text
        self.fired = False

    def __enter__(self):
        inj = self

        def hit(path):
            if inj.target == "codelimit.json":
                # the report document, under whatever name the implementation writes it (directly, or a temp file renamed afterwards)
                return path.parent.name == ".codelimit_cache" and path.name not in ("CACHEDIR.TAG", ".gitignore")
            return path.name == inj.target

        def write_text(self_, data, *a, **kw):
            if hit(self_) and not inj.fired:
                inj.fired = True
                if inj.k is not None:
                    with open(self_, "w") as f:
                        f.write(data[: inj.k])
                raise inj.exc
            return inj.orig(self_, data, *a, **kw)

        Path.write_text = write_text
        return self

    def __exit__(self, *a):
        Path.write_text = self.orig
        return False


def crash_point(ctx, ti, files, rng, k_frac, target, exc_name):
    """a scan whose own cache write is cut short, then a clean scan"""
    root = make_tree(files)
    try:
        if rng.random() < 0.5:
            run_scan_command(root)  # there may or may not be an older valid cache
            with open(os.path.join(root, sorted(files)[0]), "a") as f:
                f.write("\n")
        full_len = len(json.dumps(fresh_doc(root), indent=2))
        k = None if target != "codelimit.json" else int(full_len * k_frac)
        exc = OSError(errno.ENOSPC, "No space left on device") if exc_name == "ENOSPC" else KeyboardInterrupt()
        with InterruptedWrite(target, k, exc) as inj:
            err, _ = run_scan_command(root)
        label = f"interrupted_write:{target}:k={k}:{exc_name}"
        if not inj.fired:
            ctx.count("info.injection_point_not_reached")
        else:
            ctx.count("faults.interrupted_write")
            ctx.distinct([ti, label])
        judge_recovery(ctx, root, {"tree": ti, "fault": label, "crash": [k_frac, target, exc_name]}, label)
    finally:
        shutil.rmtree(root, ignore_errors=True)


def py_function(name, n):
    return f"def {name}(a, b):\n" + "".join(f"    v{k} = a + {k}\n" for k in range(n - 2)) + "    return a\n"


SCENARIOS = ["first_scan", "unchanged_rescan", "same_length_edit", "other_edit"]


def real_crash_point(ctx, scenario, k_frac, rng):
    """The cache write of a REAL scan is cut short by the operating system: RLIMIT_FSIZE makes the write() that would grow the file
    beyond k bytes fail like a full disk (SIGXFSZ ignored -> EFBIG), whatever strategy the code uses to write the file
    (truncate-and-write, write-in-place, temp file + rename). Then the limit is lifted and a clean scan must recover."""
    import resource
    import signal

    files = {"a.py": py_function("foo", 12) + "\n\n" + py_function("bar", 3), "lib/b.py": py_function("baz", 5)}
    root = make_tree(files)
    try:
        if scenario != "first_scan":
            err, _ = run_scan_command(root)
            if err is not None:
                raise err
            old_len = len(open(cache_path(root)).read())
            if scenario == "same_length_edit":
                # foo grows from 12 to 45 lines: every number keeps its digit count, so the new document has the old length and a
                # write that does not truncate first would leave new-prefix + old-suffix = possibly valid JSON with stale numbers
                with open(os.path.join(root, "a.py"), "w") as f:
                    f.write(py_function("foo", 45) + "\n\n" + py_function("bar", 3))
            elif scenario == "other_edit":
                with open(os.path.join(root, "a.py"), "w") as f:
                    f.write(py_function("foo", 7) + "\n\n" + py_function("bar", 3) + "\n\n" + py_function("extra", 61))
        full_len = len(json.dumps(fresh_doc(root), indent=2)) + 40
        k = max(0, int(full_len * k_frac))
        signal.signal(signal.SIGXFSZ, signal.SIG_IGN)
        soft, hard = resource.getrlimit(resource.RLIMIT_FSIZE)
        resource.setrlimit(resource.RLIMIT_FSIZE, (k, hard))
        try:
            err, _ = run_scan_command(root)
        finally:
            resource.setrlimit(resource.RLIMIT_FSIZE, (soft, hard))
        label = f"real_crash:{scenario}:k={k}"
        if err is None:
            ctx.count("info.write_completed_below_limit")
        else:
            ctx.count("faults.real_interrupted_write")
            ctx.count("faults.real_interrupted_write." + scenario)
            ctx.distinct([scenario, k])
        state = "absent"
        if os.path.exists(cache_path(root)):
            try:
                json.loads(open(cache_path(root)).read())
                state = "parses_as_json"
            except Exception:
                state = "not_json"
        ctx.count("info.cache_state_after_real_crash." + state)
        judge_recovery(ctx, root, {"real_crash": [scenario, k_frac]}, label)
    finally:
        shutil.rmtree(root, ignore_errors=True)


def kill_case(ctx, ti, files, rng):
    """SIGKILL a real CLI scan at a random moment, then a clean scan"""
    root = make_tree(files)
    try:
        # make the scan long enough to be hit in the middle
        for i in range(40):
            with open(os.path.join(root, f"gen{i}.py"), "w") as f:
                f.write("".join(f"def f{i}_{j}(a):\n    return a + {j}\n\n" for j in range(60)))
        env = dict(os.environ, PYTHONPATH=REPO, COLUMNS="200")
        p = subprocess.Popen([PY, "-m", "codelimit", "scan", "."], cwd=root, env=env, stdout=subprocess.DEVNULL, stderr=subprocess.DEVNULL)
        time.sleep(rng.uniform(0.3, 2.5))
        p.send_signal(signal.SIGKILL)
        p.wait()
        ctx.count("faults.sigkill")
        state = "no_cache_dir"
        if os.path.isdir(os.path.join(root, ".codelimit_cache")):
            state = "dir_without_file" if not os.path.exists(cache_path(root)) else "file_present"
        ctx.count("info.state_after_kill." + state)
        judge_recovery(ctx, root, {"tree": ti, "fault": "sigkill", "kill": True}, "sigkill:" + state)
    finally:
        shutil.rmtree(root, ignore_errors=True)


def run(shard, ctx):
    rng = rng_for(shard["seed"], "c10", shard["part"])
    k = 0
    for ti, files in enumerate(TREES):
        root, valid = with_valid_cache(files)
        try:
            n = len(valid)
            if shard["offsets"]:
                step = max(1, (3 * n) // shard["offsets"])
                offsets = sorted(set(range(0, n, step)) | {0, 1, 2, n - 2, n - 1} | {rng.randrange(n) for _ in range(20)})
            else:
                offsets = list(range(n))
            for off in offsets:
                k += 1
                if k % shard["parts"] != shard["part"]:
                    continue
                static_fault(ctx, ti, valid, root, f"truncate@{off}", "truncation", valid[:off])
            # one byte overwritten by a high byte (bit flip, bad sector): the file is no longer valid UTF-8; a reader that skips
            # undecodable bytes would see a well-formed document with a digit or a letter missing
            vb = valid.encode()
            for off in range(0, len(vb)):
                k += 1
                if k % shard["parts"] != shard["part"]:
                    continue
                bad = bytes([0x80 | (vb[off] & 0x7F)]) if vb[off] < 0x80 else b"\xff"
                static_fault(ctx, ti, valid, root, f"corrupt_byte@{off}", "corrupt_byte", None,
                             lambda d, off=off, bad=bad: open(os.path.join(d, "codelimit.json"), "wb").write(vb[:off] + bad + vb[off + 1:]))
            for kind, label, text in structural_faults(valid):
                k += 1
                if k % shard["parts"] != shard["part"]:
                    continue
                static_fault(ctx, ti, valid, root, label, kind, text)
            actions = [("missing_file", lambda d: os.unlink(os.path.join(d, "codelimit.json"))),
                       ("missing_tag", lambda d: os.unlink(os.path.join(d, "CACHEDIR.TAG")) if os.path.exists(os.path.join(d, "CACHEDIR.TAG")) else None),
                       ("missing_gitignore", lambda d: os.unlink(os.path.join(d, ".gitignore")) if os.path.exists(os.path.join(d, ".gitignore")) else None),
                       ("empty_cache_dir", lambda d: [os.unlink(os.path.join(d, x)) for x in os.listdir(d)]),
                       ("no_cache_dir", lambda d: shutil.rmtree(d))]
            for label, act in actions:
                k += 1
                if k % shard["parts"] != shard["part"]:
                    continue
                static_fault(ctx, ti, valid, root, label, "missing_files", None, act)
        finally:
            shutil.rmtree(root, ignore_errors=True)
    # crash points in the cache write itself
    for i in range(shard["crash"] // shard["parts"] + 1):
        ti = rng.randrange(len(TREES))
        target = rng.choice(["codelimit.json"] * 6 + ["CACHEDIR.TAG", ".gitignore"])
        crash_point(ctx, ti, TREES[ti], rng, rng.random(), target, rng.choice(["ENOSPC", "KeyboardInterrupt"]))
    # real crash points: the OS cuts the write short (RLIMIT_FSIZE), stratified offsets per scenario
    n_real = shard["real"] // shard["parts"] + 1
    for i in range(n_real):
        scenario = SCENARIOS[(i + shard["part"]) % len(SCENARIOS)]
        frac = ((i * shard["parts"] + shard["part"]) % shard["real"] + rng.random()) / shard["real"]
        real_crash_point(ctx, scenario, frac, rng)
    # sequences fault -> scan -> fault -> scan on one tree
    for i in range(shard["seq"] // shard["parts"] + 1):
        ti = rng.randrange(len(TREES))
        root, valid = with_valid_cache(TREES[ti])
        try:
            faults = structural_faults(valid)
            seq = []
            for _ in range(rng.randint(2, 4)):
                if rng.random() < 0.5:
                    off = rng.randrange(len(valid))
                    text, label = valid[:off], f"truncate@{off}"
                else:
                    _, label, text = faults[rng.randrange(len(faults))]
                seq.append(label)
                with open(cache_path(root), "w") as f:
                    f.write(text)
                ctx.count("faults.in_sequences")
                if not judge_recovery(ctx, root, {"tree": ti, "sequence": seq}, "sequence:" + " -> ".join(seq)):
                    break
                if rng.random() < 0.5:
                    with open(os.path.join(root, sorted(TREES[ti])[0]), "a") as f:
                        f.write("\n")
            ctx.distinct([ti, seq])
        finally:
            shutil.rmtree(root, ignore_errors=True)
    for i in range(shard["kills"] // shard["parts"] + (1 if shard["kills"] and shard["part"] < shard["kills"] % shard["parts"] else 0)):
        ti = rng.randrange(len(TREES))
        kill_case(ctx, ti, TREES[ti], rng)
    ctx.sample({"tree": TREES[0], "faults": ["truncate@137", "delete:codebase/files/a.py/checksum", "type:codebase/files/a.py/loc:=\"s\"",
                                             "interrupted_write:codelimit.json:k=212:ENOSPC", "missing_file"]})


def replay(case, ctx):
    ti = case["tree"]
    if "real_crash" in case:
        real_crash_point(ctx, case["real_crash"][0], case["real_crash"][1], rng_for(0, "c10r"))
        return
    if "crash" in case:
        k_frac, target, exc_name = case["crash"]
        crash_point(ctx, ti, TREES[ti], rng_for(0, "c10r"), k_frac, target, exc_name)
        return
    if case.get("kill"):
        kill_case(ctx, ti, TREES[ti], rng_for(0, "c10r"))
        return
    root, valid = with_valid_cache(TREES[ti])
    try:
        labels = case.get("sequence") or [case["fault"]]
        table = {label: text for _, label, text in structural_faults(valid)}
        for label in labels:
            if label.startswith("corrupt_byte@"):
                vb = valid.encode()
                off = int(label.split("@")[1])
                bad = bytes([0x80 | (vb[off] & 0x7F)]) if vb[off] < 0x80 else b"\xff"
                with open(cache_path(root), "wb") as f:
                    f.write(vb[:off] + bad + vb[off + 1:])
                judge_recovery(ctx, root, case, label)
                continue
            if label.startswith("truncate@"):
                text = valid[: int(label.split("@")[1])]
            elif label in table:
                text = table[label]
            elif label in ("missing_file", "empty_cache_dir", "no_cache_dir", "missing_tag", "missing_gitignore"):
                cdir = os.path.join(root, ".codelimit_cache")
                {"missing_file": lambda: os.unlink(cache_path(root)), "no_cache_dir": lambda: shutil.rmtree(cdir),
                 "empty_cache_dir": lambda: [os.unlink(os.path.join(cdir, x)) for x in os.listdir(cdir)],
                 "missing_tag": lambda: os.unlink(os.path.join(cdir, "CACHEDIR.TAG")),
                 "missing_gitignore": lambda: os.unlink(os.path.join(cdir, ".gitignore"))}[label]()
                judge_recovery(ctx, root, case, label)
                continue
            else:
                ctx.inconclusive.append(f"unknown fault label {label}")
                return
            with open(cache_path(root), "w") as f:
                f.write(text)
            judge_recovery(ctx, root, case, label)
    finally:
        shutil.rmtree(root, ignore_errors=True)


LEVEL_TEXT = ("The space of faults the property names is enumerated on three small trees: truncation offsets (all of them in the "
              "thorough tier), every single-key deletion and every single-value type replacement of the cache document, missing files, "
              "and crash points inside the cache write itself; after each fault the real scan must succeed, rewrite a valid cache and "
              "match a from-scratch scan. Fault enumeration; the right level for a recovery property over crash points.")
LEVEL_NOTE = ("Trusted: the from-scratch scan as reference. Crash points are simulated by stopping Path.write_text after k characters "
              "(and by real SIGKILLs in the thorough tier); the OS is assumed to keep the bytes written before the crash.")
