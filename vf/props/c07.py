"""C07 - totals, profiles and the folder tree always agree with the measurements.

Monitor shape: invariant at a hook. A post-condition on the real Codebase.aggregate (the quiescent point every caller
reaches exactly once) recomputes language totals, file/folder profiles, the grand totals and the folder tree from the
object's own flat file list with a 30-line reference (vf/model/totals.py) and compares. The same recomputation is
applied to the parsed JSON document written by the real ReportWriter and to the codebase re-read by ReportReader.
"""
from __future__ import annotations

import itertools
import json

from vf import MonitorViolation
from vf.common import rng_for, short_tb
from vf.gen import codebases as G
from vf.model import totals as T

ID = "C07"
LEVEL = "exploration"
TECHNIQUE = ("invariant hook on the real Codebase.aggregate + reference recomputation from the flat file list, applied to the "
             "live object, to the JSON document of the real ReportWriter and to the ReportReader round-trip; random codebases, "
             "all insertion orders for small ones")
RULE = ("one case = one codebase description: a finite set of distinct relative paths (depth 0-6, shared prefixes, non-ASCII and "
        "dotted names), languages and measurement lists (boundary lengths), inserted in a given order through the real add_file "
        "and aggregated once; all insertion orders are enumerated for codebases of up to 4 files; non-trivial = at least 2 files "
        "in at least 2 folders; distinct = distinct (path set, measurement lists, insertion order)")
ASSUMPTIONS = ["paths are normalised relative paths with non-empty components other than '.' and '..'; no path is both a file and a folder",
               "aggregate() is observed once per codebase, as every caller in the repository does",
               "a file's line total is the sum of its function lengths (established by C05 for scanned files)"]
BOUNDS = {"quick": dict(n=32, random=60000, perm_specs=3000, scans=6), "thorough": dict(n=64, random=1000000, perm_specs=40000, scans=120)}
MINIMUM = {"quick": {"monitor.aggregate_invariant": 100000, "monitor.json_documents": 50000, "monitor.reader_roundtrips": 50000, "monitor.scans_under_aggregate_hook": 300},
           "thorough": {"monitor.aggregate_invariant": 1500000, "monitor.json_documents": 800000, "monitor.reader_roundtrips": 800000}}


def shards(tier, seed):
    b = BOUNDS[tier]
    return [{"part": i, "parts": b["n"], **b} for i in range(b["n"])]


def spec_of_codebase(cb):
    """flat description derived from the object's own file list (what the invariant recomputes from)"""
    entries = []
    for path, e in cb.files.items():
        entries.append({"path": path, "language": e.language, "loc": e.loc,
                        "measurements": [[m.unit_name, None, None, m.value] for m in e.measurements()]})
    return {"entries": entries}


def codebase_problems(cb, limit=4):
    from codelimit.common.ScanTotals import ScanTotals

    exp = T.expected(spec_of_codebase(cb))
    problems = []
    # language totals
    got_totals = {k: {"files": v.files, "lines_of_code": v.loc, "functions": v.functions,
                      "hard_to_maintain": v.hard_to_maintain, "unmaintainable": v.unmaintainable} for k, v in cb.totals.items()}
    if got_totals != exp["totals"]:
        problems.append({"problem": "language_totals", "expected": exp["totals"], "observed": got_totals})
    st = ScanTotals(cb.totals)
    grand = {"files": st.total_files(), "lines_of_code": st.total_loc(), "functions": st.total_functions(),
             "hard_to_maintain": st.total_hard_to_maintain(), "unmaintainable": st.total_unmaintainable()}
    if grand != exp["grand"]:
        problems.append({"problem": "grand_totals", "expected": exp["grand"], "observed": grand})
    for path, e in cb.files.items():
        p = list(e.profile())
        if p != exp["file_profiles"][path] or sum(p) != e.loc:
            problems.append({"problem": "file_profile_not_a_partition", "file": path, "profile": p, "loc": e.loc,
                             "expected": exp["file_profiles"][path]})
            break
    problems += tree_problems({k: {"entries": [x.name for x in f.entries], "profile": list(f.profile)} for k, f in cb.tree.items()}, exp)
    return problems[:limit]


def tree_problems(tree, exp):
    problems = []
    if set(tree) != set(exp["folders"]):
        problems.append({"problem": "folder_set", "missing": sorted(set(exp["folders"]) - set(tree))[:5],
                         "unexpected": sorted(set(tree) - set(exp["folders"]))[:5]})
        return problems
    for key, f in exp["folders"].items():
        want = sorted(f["files"] + f["folders"])
        got = sorted(tree[key]["entries"])
        if got != want:
            problems.append({"problem": "folder_entries_not_exactly_once", "folder": key, "expected": want[:10], "observed": got[:10]})
            break
    for key, f in exp["folders"].items():
        if list(tree[key]["profile"]) != f["profile"]:
            problems.append({"problem": "folder_profile", "folder": key, "expected": f["profile"], "observed": list(tree[key]["profile"])})
            break
    return problems


def document_problems(doc, spec_entries):
    """the same recomputation on the parsed JSON 'codebase' object"""
    cbj = doc["codebase"]
    entries = []
    for path, v in cbj["files"].items():
        entries.append({"path": path, "language": v["language"], "loc": v["loc"],
                        "measurements": [[m["unit_name"], None, None, m["value"]] for m in v["measurements"]]})
    exp = T.expected({"entries": entries})
    problems = []
    if cbj["totals"] != exp["totals"]:
        problems.append({"problem": "json_language_totals", "expected": exp["totals"], "observed": cbj["totals"]})
    for path, v in cbj["files"].items():
        if v["profile"] != exp["file_profiles"][path]:
            problems.append({"problem": "json_file_profile", "file": path})
            break
    problems += tree_problems(cbj["tree"], exp)
    if sorted(cbj["files"]) != sorted(e["path"] for e in spec_entries):
        problems.append({"problem": "json_file_set_differs_from_input"})
    return problems


class Hook:
    """post-condition on the real Codebase.aggregate"""

    def __init__(self, ctx):
        from codelimit.common import Codebase as C

        self.ctx = ctx
        self.C = C.Codebase
        self.orig = self.C.aggregate
        self.problems = None
        hook = self

        def aggregate(self_):
            r = hook.orig(self_)
            ctx.count("monitor.aggregate_invariant")
            hook.problems = codebase_problems(self_)
            if hook.problems:
                raise MonitorViolation(ID, "aggregate invariant")
            return r

        self.wrapped = aggregate

    def __enter__(self):
        self.C.aggregate = self.wrapped
        return self

    def __exit__(self, *a):
        self.C.aggregate = self.orig
        return False


def one_spec(ctx, hook, spec, label):
    from codelimit.common.report.Report import Report
    from codelimit.common.report.ReportReader import ReportReader
    from codelimit.common.report.ReportWriter import ReportWriter

    case = {"spec": spec}
    ctx.eval()
    try:
        cb = G.build_codebase(spec)
        cb.aggregate()
    except MonitorViolation:
        ctx.violation("aggregate_invariant", case, {"class": label, "problems": hook.problems})
        return
    except Exception as e:
        ctx.violation("exception", case, {"class": label, "error": f"{type(e).__name__}: {e}", "tb": short_tb(5)})
        return
    if sorted(cb.files) != sorted(e["path"] for e in spec["entries"]):
        ctx.violation("file_set", case, {"class": label, "files": sorted(cb.files)[:10]})
    try:
        text = ReportWriter(Report(cb)).to_json()
        doc = json.loads(text)
        ctx.count("monitor.json_documents")
        dp = document_problems(doc, spec["entries"])
        if dp:
            ctx.violation("json_document", case, {"class": label, "problems": dp[:3]})
        try:
            rep2 = ReportReader.from_json(text)  # calls aggregate -> the hook judges the re-read object
            ctx.count("monitor.reader_roundtrips")
            if list(rep2.codebase.files) != list(cb.files):
                ctx.violation("reader_file_order", case, {"class": label})
        except MonitorViolation:
            ctx.violation("aggregate_invariant_after_reread", case, {"class": label, "problems": hook.problems})
    except json.JSONDecodeError:
        ctx.count("cases.document_not_json_judged_by_C08")
    except MonitorViolation:
        raise
    except Exception as e:
        ctx.violation("exception", case, {"class": label, "error": f"{type(e).__name__}: {e}", "tb": short_tb(5)})
    folders = {e["path"].rsplit("/", 1)[0] if "/" in e["path"] else "." for e in spec["entries"]}
    if len(spec["entries"]) >= 2 and len(folders) >= 2:
        ctx.distinct(spec)
    ctx.maxi("max.files", len(spec["entries"]))
    ctx.maxi("max.depth", max([e["path"].count("/") for e in spec["entries"]], default=0))


def scanned_codebases(ctx, hook, rng, n):
    """The same invariant on codebases produced by REAL scans, cold and cache-assisted, of trees that change between scans
    (copies of a file into a new folder, renames, edits, deletions): scan_command calls aggregate(), where the hook judges."""
    import os
    import shutil
    import tempfile

    from vf.cachelab import read_cache, run_scan_command
    from vf.gen import canon

    for i in range(n):
        root = os.path.realpath(tempfile.mkdtemp(prefix="vf-c07-"))
        try:
            names = []
            for k in range(rng.randint(2, 5)):
                lang = rng.choice(["Python", "JavaScript", "C", "Java"])
                rel = os.path.join(rng.choice(["", "pkg", "pkg/core", "lib/a/b", "-attic"]), f"m{k}{canon.EXT[lang]}")
                os.makedirs(os.path.dirname(os.path.join(root, rel)), exist_ok=True)
                with open(os.path.join(root, rel), "w") as f:
                    if rng.random() < 0.5:
                        # nested functions, one-liners, closures: a physical line can carry tokens of two functions
                        f.write(canon.generate(lang, f"c07:{i}:{k}:{rng.random()}", None, target_functions=3).text)
                    else:
                        f.write(canon.file_with_functions(lang, [max(2, rng.choice([3, 16, 31, 61, 12])) for _ in range(rng.randint(0, 3))], prefix=f"s{k}x"))
                names.append(rel)
            history = []
            for step in range(rng.randint(2, 4)):
                ctx.eval()
                err, _ = run_scan_command(root)
                ctx.count("monitor.scans_under_aggregate_hook")
                if isinstance(err, MonitorViolation):
                    ctx.violation("aggregate_invariant_in_scan", {"scan_history": history}, {"history": history, "problems": hook.problems})
                    break
                if err is not None:
                    ctx.notes.append(f"scan raised {type(err).__name__} (C03's concern)")
                    break
                doc = read_cache(root)
                dp = document_problems(doc, [{"path": p} for p in doc["codebase"]["files"]])
                on_disk = sorted(os.path.relpath(os.path.join(d, f), root) for d, _, fs in os.walk(root) for f in fs
                                 if ".codelimit_cache" not in d)
                if dp or sorted(doc["codebase"]["files"]) != on_disk:
                    ctx.violation("scan_document", {"scan_history": history}, {"history": history, "problems": dp[:3],
                                                                                "files_in_report": sorted(doc["codebase"]["files"]), "on_disk": on_disk})
                    break
                op = rng.choice(["copy", "copy", "rename", "edit", "delete"])
                src = rng.choice(names)
                if op == "copy":
                    dst = os.path.join(rng.choice(["new", "pkg/copy", "x/y"]), f"c{step}_" + os.path.basename(src))
                    os.makedirs(os.path.dirname(os.path.join(root, dst)), exist_ok=True)
                    shutil.copy(os.path.join(root, src), os.path.join(root, dst))
                    names.append(dst)
                elif op == "rename":
                    dst = os.path.join(os.path.dirname(src), f"r{step}_" + os.path.basename(src))
                    os.replace(os.path.join(root, src), os.path.join(root, dst))
                    names[names.index(src)] = dst
                elif op == "edit":
                    with open(os.path.join(root, src), "a") as f:
                        f.write("\n")
                elif op == "delete" and len(names) > 1:
                    os.unlink(os.path.join(root, src))
                    names.remove(src)
                history.append([op, src])
            ctx.distinct(["scan", history, names])
        finally:
            shutil.rmtree(root, ignore_errors=True)


def run(shard, ctx):
    rng = rng_for(shard["seed"], "c07", shard["part"])
    with Hook(ctx) as hook:
        scanned_codebases(ctx, hook, rng, shard.get("scans", 6))
        for i in range(shard["random"] // shard["parts"]):
            spec = G.codebase_spec(rng, max_files=rng.choice([6, 25, 60]))
            one_spec(ctx, hook, spec, "random")
            ctx.count("cases.random")
            if i == 0:
                ctx.sample({"root": spec["root"], "files": [[e["path"], e["language"], [m[3] for m in e["measurements"]]] for e in spec["entries"][:6]]})
        for i in range(shard["perm_specs"] // shard["parts"]):
            spec = G.codebase_spec(rng, max_files=4, max_depth=3)
            if not (2 <= len(spec["entries"]) <= 4):
                continue
            for perm in itertools.permutations(spec["entries"]):
                one_spec(ctx, hook, {"root": spec["root"], "entries": list(perm)}, "all_orders")
                ctx.count("cases.insertion_orders")


def replay(case, ctx):
    with Hook(ctx) as hook:
        if "scan_history" in case:
            scanned_codebases(ctx, hook, rng_for(0, "c07r"), 40)
            return
        one_spec(ctx, hook, case["spec"], "replay")


LEVEL_TEXT = ("Every aggregate() call made by the workload is followed by a recomputation of all totals, profiles and the folder tree "
              "from the object's own flat file list; the JSON document and the re-read codebase are checked the same way. Thousands of "
              "random codebases, all insertion orders for small ones. Exploration with an input-independent invariant; right level for a "
              "bookkeeping structure whose faults are dropped/duplicated contributions.")
LEVEL_NOTE = "Trusted: the 30-line recomputation in vf/model/totals.py (classifier thresholds as in C02)."
