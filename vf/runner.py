"""Tiering, sharding over the cores, watchdogs, known-finding attribution, evidence and verdict."""
from __future__ import annotations

import concurrent.futures as cf
import importlib
import json
import os
import shutil
import subprocess
import sys
import tempfile
import time

from . import REPO, VERIF_DIR
from .common import digest

PY = "/venv/bin/python" if os.path.exists("/venv/bin/python") else sys.executable
CORES = int(os.environ.get("VF_CORES", str(os.cpu_count() or 4)))
SHARD_TIMEOUT = {"quick": 600, "thorough": 3000}


def load_known():
    p = os.path.join(VERIF_DIR, "known_findings.json")
    if not os.path.exists(p):
        return []
    with open(p) as f:
        return json.load(f).get("findings", [])


def _run_shard(prop, shard, tier, scratch):
    out = os.path.join(scratch, f"shard-{digest(shard)}-{time.time_ns()}.json")
    env = dict(os.environ)
    env.setdefault("PYTHONHASHSEED", "0")
    env.update(shard.get("env", {}))
    env["PYTHONDONTWRITEBYTECODE"] = "1"
    env["LC_ALL"] = env["LANG"] = "C.UTF-8"
    env["VERIF_REPO"] = REPO
    timeout = shard.get("timeout", SHARD_TIMEOUT[tier])
    env["VF_SHARD_WATCHDOG"] = str(max(5, timeout - 10))
    env["PYTHONPATH"] = VERIF_DIR + os.pathsep + env.get("PYTHONPATH", "")
    t0 = time.time()
    try:
        p = subprocess.run(
            [PY, "-X", "faulthandler", "-m", "vf.worker", prop, out],
            input=json.dumps(shard).encode(), stdout=subprocess.PIPE, stderr=subprocess.PIPE,
            timeout=timeout, env=env, cwd=VERIF_DIR,
        )
    except subprocess.TimeoutExpired as e:
        tail = (e.stderr or b"")[-1500:].decode("utf-8", "replace")
        return {"shard": shard, "evaluations": 0, "counters": {}, "nontrivial": [], "violations": [],
                "violation_total": 0, "samples": [], "notes": [],
                "inconclusive": [f"wall-clock watchdog ({timeout}s) fired: {tail}"], "wall_s": time.time() - t0}
    if os.path.exists(out):
        with open(out) as f:
            res = json.load(f)
        os.unlink(out)
        return res
    tail = p.stderr[-2000:].decode("utf-8", "replace")
    return {"shard": shard, "evaluations": 0, "counters": {}, "nontrivial": [], "violations": [],
            "violation_total": 0, "samples": [], "notes": [],
            "inconclusive": [f"worker died rc={p.returncode}: {tail}"], "wall_s": time.time() - t0}


def run_shards(prop, shards, tier):
    scratch = tempfile.mkdtemp(prefix=f"vf-{prop}-")
    try:
        with cf.ThreadPoolExecutor(max_workers=CORES) as ex:
            return list(ex.map(lambda s: _run_shard(prop, s, tier, scratch), shards))
    finally:
        shutil.rmtree(scratch, ignore_errors=True)


def merge(results):
    agg = {"evaluations": 0, "counters": {}, "nontrivial": set(), "violations": [], "violation_total": 0,
           "samples": [], "notes": [], "inconclusive": []}
    for r in results:
        agg["evaluations"] += r["evaluations"]
        for k, v in r["counters"].items():
            if k.startswith("max."):
                agg["counters"][k] = max(agg["counters"].get(k, 0), v)
            else:
                agg["counters"][k] = agg["counters"].get(k, 0) + v
        agg["nontrivial"].update(r["nontrivial"])
        agg["violations"].extend(r["violations"])
        agg["violation_total"] += r["violation_total"]
        for s in r["samples"]:
            if len(agg["samples"]) < 8:
                agg["samples"].append(s)
        agg["notes"].extend(r["notes"])
        agg["inconclusive"].extend(r["inconclusive"])
    return agg


def check(prop, tier, seed):
    t0 = time.time()
    mod = importlib.import_module(f"vf.props.{prop.lower()}")
    shards = mod.shards(tier, seed)
    for i, s in enumerate(shards):
        s.setdefault("tier", tier)
        s.setdefault("seed", seed)
        s.setdefault("index", i)
    results = run_shards(prop, shards, tier)
    agg = merge(results)
    post = getattr(mod, "post", None)
    if post:  # cross-shard comparison (e.g. digests computed under different hash seeds / orders)
        post(results, agg)
    known = [k for k in load_known() if k["property"] == prop]
    open_known = {k["id"]: k for k in known if k["status"] == "open"}

    # deciding monitors must have been reached
    for name, minimum in getattr(mod, "MINIMUM", {}).get(tier, {}).items():
        seen = agg["counters"].get(name, 0) if name != "evaluations" else agg["evaluations"]
        if seen < minimum:
            agg["inconclusive"].append(f"monitor counter {name}={seen} below the tier minimum {minimum}")

    unlisted, reproduced = [], {}
    classify = getattr(mod, "classify", None)
    for v in agg["violations"]:
        fid = v.get("mechanism")
        if classify is not None and fid is None:
            fid = classify(v)
        if fid and fid in open_known:
            reproduced.setdefault(fid, []).append(v)
        else:
            unlisted.append(v)

    lines = []
    for fid, k in open_known.items():
        if fid in reproduced:
            lines.append(f"KNOWN-FINDING: property={prop} {fid}: {k['what_fails']} "
                         f"[{len(reproduced[fid])} recorded occurrence(s) this run]")
        else:
            lines.append(f"NOTE: known finding {fid} of {prop} was not reproduced in this run (informational)")

    replay_paths = []
    if unlisted:
        rdir = os.path.join(VERIF_DIR, "replay", prop) if REPO == "/repo" else os.path.join(
            os.environ.get("VF_EVIDENCE_DIR", tempfile.gettempdir()), "replay", prop)
        os.makedirs(rdir, exist_ok=True)
        seen = set()
        for v in unlisted:
            key = digest([v["kind"], v["case"]])
            if key in seen:
                continue
            seen.add(key)
            path = os.path.join(rdir, f"{key}.json")
            with open(path, "w") as f:
                json.dump({"property": prop, "tier": tier, "seed": seed, "kind": v["kind"], "case": v["case"],
                           "detail": v["detail"], "repo": REPO}, f, indent=1, default=str)
            replay_paths.append((v, path))
            if len(replay_paths) >= 10:
                break

    verdict = "violated" if unlisted else ("inconclusive" if agg["inconclusive"] else "held")
    wall = round(time.time() - t0, 2)
    coverage = {
        "evaluations": agg["evaluations"],
        "distinct_nontrivial": len(agg["nontrivial"]) + agg["counters"].get("distinct.counted_in_shard", 0),
        "rule": getattr(mod, "RULE", ""),
        "samples": agg["samples"] or ["(no sample recorded)"],
        "exhaustive": bool(getattr(mod, "EXHAUSTIVE", {}).get(tier, False)),
        "exhaustive_scope": getattr(mod, "EXHAUSTIVE_SCOPE", {}).get(tier, ""),
        "monitor_counters": dict(sorted(agg["counters"].items())),
        "shards": len(shards),
        "verdict": verdict,
        "known_findings_reproduced": {k: len(v) for k, v in reproduced.items()},
        "unlisted_violations_recorded": len(unlisted),
        "violation_events_total": agg["violation_total"],
        "inconclusive_reasons": agg["inconclusive"][:10],
        "notes": sorted(set(agg["notes"]))[:20],
        "repo_under_test": REPO,
        "technique": getattr(mod, "TECHNIQUE", "runtime monitoring"),
    }
    extra = getattr(mod, "finalize", None)
    if extra:
        extra(coverage, agg)
    evidence = {
        "property_id": prop, "tier": tier, "seed": seed, "level": getattr(mod, "LEVEL", "exploration"),
        "coverage": coverage, "assumptions": getattr(mod, "ASSUMPTIONS", []), "wall_s": wall,
        "violations": len(unlisted),
    }
    # evidence/ describes runs against /repo only; self-validation runs (VERIF_REPO=<scratch copy>) write elsewhere
    edir = os.path.join(VERIF_DIR, "evidence") if REPO == "/repo" else os.environ.get("VF_EVIDENCE_DIR", tempfile.gettempdir())
    os.makedirs(edir, exist_ok=True)
    with open(os.path.join(edir, f"{prop}.json"), "w") as f:
        json.dump(evidence, f, indent=1, default=str)
        f.write("\n")

    print(f"[{prop}] tier={tier} seed={seed} shards={len(shards)} evaluations={agg['evaluations']} "
          f"distinct_nontrivial={coverage['distinct_nontrivial']} wall={wall}s verdict={verdict}")
    for k, v in sorted(agg["counters"].items()):
        print(f"    {k} = {v}")
    for ln in lines:
        print(ln)
    for v, path in replay_paths:
        print(f"  violation kind={v['kind']} detail={json.dumps(v['detail'], default=str)[:600]}")
        print(f"VIOLATION property={prop} replay={path}")
    if verdict == "violated":
        return 1
    if verdict == "inconclusive":
        for r in agg["inconclusive"][:5]:
            print(f"INCONCLUSIVE property={prop} reason={r[:1500]}")
        return 2
    return 0


def replay(prop, path):
    with open(path) as f:
        w = json.load(f)
    shard = {"replay": w["case"], "kind": w.get("kind"), "tier": "quick", "seed": w.get("seed", 0), "index": 0}
    res = run_shards(prop, [shard], "quick")[0]
    for r in res["inconclusive"]:
        print(f"INCONCLUSIVE property={prop} reason={r[:1500]}")
    if res["violations"]:
        for v in res["violations"][:5]:
            print(f"  violation kind={v['kind']} detail={json.dumps(v['detail'], default=str)[:1200]}")
        print(f"VIOLATION property={prop} replay={path}")
        return 1
    print(f"[{prop}] replay {path}: no violation on {REPO}")
    return 2 if res["inconclusive"] else 0
