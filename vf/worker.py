"""One shard of one property, run in its own process:  python -m vf.worker <ID> <out.json>  (shard JSON on stdin)."""
import faulthandler
import importlib
import json
import os
import sys
import traceback


def main():
    prop, out = sys.argv[1], sys.argv[2]
    shard = json.load(sys.stdin)
    faulthandler.enable()
    wd = int(os.environ.get("VF_SHARD_WATCHDOG", "0"))
    if wd:
        # leaves a stack of every thread just before the runner's own timeout kills us
        faulthandler.dump_traceback_later(wd, exit=False)
    sys.setrecursionlimit(int(os.environ.get("VF_RECURSION_LIMIT", "1000")))
    from vf.common import Ctx

    mod = importlib.import_module(f"vf.props.{prop.lower()}")
    ctx = Ctx(prop, shard)
    try:
        if shard.get("replay") is not None:
            mod.replay(shard["replay"], ctx)
        else:
            mod.run(shard, ctx)
        res = ctx.result()
    except BaseException:  # a harness failure, never a verdict
        res = ctx.result()
        res["inconclusive"].append("worker raised: " + traceback.format_exc(limit=-8))
    with open(out, "w") as f:
        json.dump(res, f)
    sys.stdout.flush()
    os._exit(0)


if __name__ == "__main__":
    main()
