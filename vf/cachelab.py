"""Shared helpers for the cache properties (C09, C10) and C06: running the real scan_command, fresh scans, canonical documents."""
from __future__ import annotations

import contextlib
import io
import json
import os
from pathlib import Path

import vf  # noqa: F401


def cache_path(root):
    return os.path.join(root, ".codelimit_cache", "codelimit.json")


def canon_doc(doc):
    """a report document modulo identifier, timestamp and listing order"""
    cb = doc["codebase"]
    return {
        "version": doc.get("version"), "root": doc.get("root"), "repository": doc.get("repository"),
        "totals": cb["totals"],
        "tree": {k: {"entries": sorted(v["entries"]), "profile": v["profile"]} for k, v in cb["tree"].items()},
        "files": {k: v for k, v in cb["files"].items()},
    }


def fresh_doc(root, exclusions=()):
    """from-scratch scan of the tree (no cache), written by the real writer, parsed"""
    from codelimit.common.Configuration import Configuration
    from codelimit.common.Scanner import scan_path
    from codelimit.common.report.Report import Report
    from codelimit.common.report.ReportWriter import ReportWriter

    Configuration.exclude = list(exclusions)
    Configuration.repository = None
    try:
        cb = scan_path(Path(root))
        cb.aggregate()
        return json.loads(ReportWriter(Report(cb, None)).to_json())
    finally:
        Configuration.exclude = []


class AnalyzeCounter:
    """wrapper around the real Scanner._analyze_file recording which relative paths were analysed"""

    def __init__(self):
        from codelimit.common import Scanner
        from vf.common import Unpatch

        self.analysed = []

        def wrap(f):
            def w(path, rel_path, checksum, lexer):
                self.analysed.append(rel_path)
                return f(path, rel_path, checksum, lexer)
            return w

        self.patch = Unpatch(Scanner, "_analyze_file", wrap)

    def __enter__(self):
        self.patch.__enter__()
        return self

    def __exit__(self, *a):
        return self.patch.__exit__(*a)


def run_scan_command(root, exclusions=()):
    """the real scan_command with stdout swallowed; returns (raised exception or None, analysed paths)"""
    from codelimit.commands.scan import scan_command
    from codelimit.common.Configuration import Configuration

    Configuration.exclude = list(exclusions)
    Configuration.repository = None
    Configuration.verbose = True  # plain print instead of a Live display thread
    buf = io.StringIO()
    err = None
    with AnalyzeCounter() as ac:
        try:
            with contextlib.redirect_stdout(buf), contextlib.redirect_stderr(buf):
                scan_command(Path(root))
        except BaseException as e:  # noqa
            err = e
    Configuration.exclude = []
    Configuration.verbose = False
    return err, ac.analysed


def read_cache(root):
    with open(cache_path(root)) as f:
        return json.loads(f.read())
