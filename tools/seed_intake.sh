#!/bin/sh
# tools/seed_intake.sh <PROP> <name>: copy an independently written breaking change from its scratch worktree /tmp/seed/<PROP>
# into /verif/seeded/<name>/ (patch.diff, demonstration, the author's note). Verification runs are done separately.
P="$1"; N="$2"; WT="/tmp/seed/$P"; OUT="/verif/seeded/$N"
mkdir -p "$OUT"
git -C "$WT" diff -- codelimit > "$OUT/patch.diff"
cp "$WT/seed_demo.py" "$OUT/seed_demo.py"
cp "$WT/SEED_NOTE.md" "$OUT/SEED_NOTE.md" 2>/dev/null
wc -l "$OUT/patch.diff"
