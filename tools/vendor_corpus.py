#!/venv/bin/python
"""One-off: copy a small real-world corpus (7 languages) from software already on this image into /verif/corpus.
Deterministic: sorted candidate lists, every k-th file, size window. Writes corpus/PROVENANCE.md.
Not part of any check; the checks only read corpus/."""
import glob
import os
import shutil

HERE = os.path.dirname(os.path.dirname(os.path.abspath(__file__)))
ISA = "/opt/veriftools/tlapm/lib/tlapm/backends/Isabelle/contrib"
NODE = "/root/.nvm/versions/node/v22.22.2/lib/node_modules"
CARGO = glob.glob("/root/.cargo/registry/src/*")[0]
SOURCES = {
    "Java": [(ISA + "/jfreechart-1.5.3/jfreechart-1.5.3/src/main/java/org/jfree/chart/**/*.java", "JFreeChart 1.5.3, LGPL-2.1"),
             (ISA + "/jedit-20250215/jedit5.7.0-patched/jEdit/org/gjt/sp/jedit/**/*.java", "jEdit 5.7.0, GPL-2.0")],
    "C++": [(ISA + "/vampire-4.8/src/Kernel/*.cpp", "Vampire 4.8, BSD-3-Clause"),
            (ISA + "/vampire-4.8/src/Shell/*.cpp", "Vampire 4.8, BSD-3-Clause"),
            (CARGO + "/aws-lc-sys-0.39.0/aws-lc/ssl/*.cc", "AWS-LC, Apache-2.0 / ISC")],
    "C": [(CARGO + "/aws-lc-sys-0.39.0/aws-lc/crypto/**/*.c", "AWS-LC, Apache-2.0 / ISC / OpenSSL"),
          (CARGO + "/zstd-sys-*/zstd/lib/**/*.c", "Zstandard, BSD-3-Clause"),
          (CARGO + "/ring-0.17.14/crypto/**/*.c", "ring / BoringSSL, ISC / OpenSSL")],
    "JavaScript": [(NODE + "/npm/lib/commands/*.js", "npm CLI, Artistic-2.0"),
                   (NODE + "/npm/node_modules/@npmcli/arborist/lib/*.js", "@npmcli/arborist, ISC"),
                   (NODE + "/npm/node_modules/semver/**/*.js", "semver, ISC"),
                   (NODE + "/puppeteer/node_modules/puppeteer-core/lib/cjs/puppeteer/cdp/*.js", "puppeteer-core (compiled), Apache-2.0")],
    "TypeScript": [(NODE + "/puppeteer/node_modules/puppeteer-core/src/**/*.ts", "puppeteer-core sources, Apache-2.0"),
                   (NODE + "/puppeteer/src/**/*.ts", "puppeteer sources, Apache-2.0")],
    "C#": [("/root/miniconda/pkgs/pygments-*/info/test/tests/examplefiles/csharp/*.cs", "Pygments example files, BSD-2-Clause"),
           ("/root/miniconda/share/doc/gettext/examples/hello-csharp*/hello.cs", "GNU gettext examples, public domain"),
           (NODE + "/npm/node_modules/node-gyp/lib/Find-VisualStudio.cs", "node-gyp, MIT")],
    "Python": [("/repo/codelimit/**/*.py", "getcodelimit/codelimit itself, ISC"),
               ("/venv/lib/python3.12/site-packages/rich/*.py", "rich, MIT"),
               ("/venv/lib/python3.12/site-packages/pathspec/**/*.py", "pathspec, MPL-2.0")],
}
EXT = {"C": ".c", "C++": ".cpp", "C#": ".cs", "Java": ".java", "JavaScript": ".js", "TypeScript": ".ts", "Python": ".py"}
DIR = {"C": "c", "C++": "cpp", "C#": "csharp", "Java": "java", "JavaScript": "javascript", "TypeScript": "typescript", "Python": "python"}
PER_LANG = 18
rows = []
for lang, specs in SOURCES.items():
    out = os.path.join(HERE, "corpus", DIR[lang])
    shutil.rmtree(out, ignore_errors=True)
    os.makedirs(out)
    cands = []
    for pat, lic in specs:
        files = sorted(f for f in glob.glob(pat, recursive=True)
                       if 2500 <= os.path.getsize(f) <= 45000 and not f.endswith(".d.ts") and "/test" not in f.replace("/tests/examplefiles", ""))
        if lang == "C#":
            files = sorted(f for f in glob.glob(pat, recursive=True))
        step = max(1, len(files) // max(1, PER_LANG // len(specs)))
        cands += [(f, lic) for f in files[::step]][: PER_LANG // len(specs) + 2]
    seen = set()
    n = 0
    for f, lic in cands:
        data = open(f, "rb").read()
        if data in seen or n >= PER_LANG:
            continue
        seen.add(data)
        name = f"{n:02d}_{os.path.basename(f)}"
        if not name.endswith(EXT[lang]):
            name = os.path.splitext(name)[0] + EXT[lang]
        with open(os.path.join(out, name), "wb") as g:
            g.write(data)
        rows.append((lang, name, f, lic, len(data)))
        n += 1
with open(os.path.join(HERE, "corpus", "PROVENANCE.md"), "w") as f:
    f.write("# Vendored real-world corpus\n\nCopied unmodified from software installed on the sandbox image; used only as test input "
            "for the monitors (C03-C06, C16). Each file keeps its own licence header where it has one.\n\n"
            "| language | file | original path | project, licence | bytes |\n|---|---|---|---|---|\n")
    for r in rows:
        f.write("| " + " | ".join(map(str, r)) + " |\n")
for lang in SOURCES:
    print(lang, sum(1 for r in rows if r[0] == lang), sum(r[4] for r in rows if r[0] == lang))
