#!/venv/bin/python
"""Self-validation only (not registered in MANIFEST): apply one deliberate break at a time to a scratch copy of the
repository, make sure the repository's own test-suite still passes on it (otherwise the break does not count), and run
the quick check of the targeted properties against the copy. A break must be caught (exit 1).

usage: tools/mutation_audit.py [-k substring] [--props C01,C02]   (catalogue: tools/mutants.py)
"""
import json
import os
import shutil
import subprocess
import sys
import tempfile
import time

HERE = os.path.dirname(os.path.dirname(os.path.abspath(__file__)))
sys.path.insert(0, os.path.join(HERE, "tools"))
from mutants import MUTANTS  # noqa: E402

PY = "/venv/bin/python"


def main():
    args = sys.argv[1:]
    sel = args[args.index("-k") + 1] if "-k" in args else None
    props = args[args.index("--props") + 1].split(",") if "--props" in args else None
    base = tempfile.mkdtemp(prefix="vf-mut-")
    results = []
    try:
        for m in MUTANTS:
            if sel and sel not in m["id"]:
                continue
            targets = [p for p in m["props"] if not props or p in props]
            if not targets:
                continue
            d = os.path.join(base, m["id"])
            shutil.copytree("/repo", d, ignore=shutil.ignore_patterns(".git", "__pycache__", ".codelimit_cache"))
            ok = True
            for f, old, new in m["edits"]:
                p = os.path.join(d, f)
                s = open(p).read()
                if s.count(old) < 1:
                    print(f"!! {m['id']}: pattern not found in {f}")
                    ok = False
                    break
                open(p, "w").write(s.replace(old, new, 1))
            if not ok:
                results.append((m["id"], "STALE", {}))
                shutil.rmtree(d)
                continue
            t = subprocess.run([PY, "-m", "pytest", "-q", "-p", "no:cacheprovider", "-x"], cwd=d, capture_output=True, text=True)
            suite = "157 passed" in t.stdout
            row = {}
            for p in targets:
                env = dict(os.environ, VERIF_REPO=d, VF_EVIDENCE_DIR=os.path.join(base, "ev"))
                t0 = time.time()
                r = subprocess.run([os.path.join(HERE, "check"), p, "quick"], cwd=HERE, env=env, capture_output=True, text=True)
                rc = r.returncode
                if rc == 1 and "VIOLATION property=" not in r.stdout:
                    rc = 3  # crashed, not a verdict
                row[p] = (rc, round(time.time() - t0, 1))
            expect_held = m.get("expect") == "held"
            results.append((m["id"], ("neutral:" if expect_held else "") + ("suite-green" if suite else "suite-RED"), row))
            word = (lambda rc: "SILENT(ok)" if rc == 0 else "FALSE-ALARM" if rc == 1 else f"rc={rc}") if expect_held else \
                (lambda rc: "CAUGHT" if rc == 1 else "MISSED" if rc == 0 else f"rc={rc}")
            print(m["id"], "suite-green" if suite else "suite-RED(" + t.stdout.strip().split("\n")[-1][:60] + ")",
                  {p: word(rc) + f" {dt}s" for p, (rc, dt) in row.items()}, flush=True)
            shutil.rmtree(d)
    finally:
        shutil.rmtree(base, ignore_errors=True)
    missed = [(i, p) for i, s, row in results for p, (rc, _) in row.items() if rc != 1 and s == "suite-green"]
    false_alarms = [(i, p) for i, s, row in results for p, (rc, _) in row.items() if rc != 0 and s.startswith("neutral:")]
    print("\nmissed:", missed)
    print("false alarms on behaviour-preserving changes:", false_alarms)


if __name__ == "__main__":
    main()
