#!/bin/sh
# run every registered check of one tier against /repo, one after the other; prints one line per check
cd "$(dirname "$0")/.." || exit 2
TIER="${1:-quick}"
rc_all=0
for p in C01 C02 C03 C04 C05 C06 C07 C08 C09 C10 C11 C12 C13 C14 C15 C16 C17 C18 C19; do
  start=$(date +%s)
  out=$(./check "$p" "$TIER" 2>&1); rc=$?
  end=$(date +%s)
  echo "$p rc=$rc $((end-start))s $(echo "$out" | grep -E '^\[' | head -1 | sed 's/.*evaluations/evaluations/')"
  echo "$out" | grep -E "^(VIOLATION|INCONCLUSIVE|KNOWN-FINDING)" | cut -c1-220
  [ $rc -ne 0 ] && rc_all=1
done
exit $rc_all
