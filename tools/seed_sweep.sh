#!/bin/sh
# quick tier of every check under several VERIF_SEED values, on the unchanged tree: every line must say rc=0
cd "$(dirname "$0")/.." || exit 2
for s in ${SEEDS:-1 2 3 7 42 1234}; do
  echo "== VERIF_SEED=$s"
  VERIF_SEED=$s tools/run_all.sh quick | grep -E "^C[0-9]+ rc=|VIOLATION|INCONCLUSIVE" | cut -c1-150
done
