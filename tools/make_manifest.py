#!/venv/bin/python
"""Regenerates /verif/MANIFEST.json from the metadata of the property modules under vf/props.
A property without a module (or whose module sets CLAIMED = False) is listed under not_applicable."""
import importlib
import json
import os
import sys

HERE = os.path.dirname(os.path.dirname(os.path.abspath(__file__)))
sys.path.insert(0, HERE)
props = [json.loads(l) for l in open(os.path.join(HERE, "properties.jsonl"))]
checks, na = [], []
for p in props:
    pid = p["id"]
    path = os.path.join(HERE, "vf", "props", pid.lower() + ".py")
    mod = None
    if os.path.exists(path):
        mod = importlib.import_module(f"vf.props.{pid.lower()}")
    if mod is None or not getattr(mod, "CLAIMED", True):
        na.append({"property_id": pid, "reason": getattr(mod, "NOT_CLAIMED_REASON", "check not built yet (work in progress; "
                   "runtime monitoring applies, see DESIGN.md section 4)")})
        continue
    checks.append({
        "property_id": pid,
        "quick_cmd": f"./check {pid} quick",
        "thorough_cmd": f"./check {pid} thorough",
        "evidence_file": f"evidence/{pid}.json",
        "replay_cmd_template": f"./check {pid} --replay {{path}}",
        "engine": "vf",
        "level_claimed": {"category": mod.LEVEL, "text": mod.LEVEL_TEXT, "design_ref": f"DESIGN.md section 4, {pid}"},
        "level_note": mod.LEVEL_NOTE,
        "technique": mod.TECHNIQUE,
    })
hooks_commits = []
hp = os.path.join(HERE, "hooks_commits.txt")
if os.path.exists(hp):
    hooks_commits = [l.split()[0] for l in open(hp) if l.strip() and not l.startswith("#")]
manifest = {
    "version": 1,
    "setup_cmd": "sh ./setup.sh",
    "hooks": {
        "guard": "CODELIMIT_VERIF",
        "enable": "no in-repository hooks are needed: the monitors wrap the real functions from the harness at run time "
                  "(vf.common.patch_everywhere / icontract); the guard name is reserved and unused",
        "baseline_off_cmd": "cd /repo && /venv/bin/python -m pytest -ra -q -p no:cacheprovider --timeout=900 --continue-on-collection-errors",
        "source_commits": hooks_commits,
        "add_only": True,
    },
    "engines": [{"name": "vf", "path": "vf/", "serves_properties": [c["property_id"] for c in checks],
                 "kind_free_text": "Python runtime-monitoring harness: workload generators, contracts (icontract) and "
                                   "reference-model / metamorphic / fault-injection monitors wrapped around the real "
                                   "codelimit functions, sharded over worker processes"}],
    "checks": checks,
    "not_applicable": na,
    "notes": "All checks run the current working tree of /repo (VERIF_REPO overrides, used only for self-validation). "
             "Exit 0 held (KNOWN-FINDING lines possible), exit 1 + VIOLATION line, exit 2 + INCONCLUSIVE line when a "
             "deciding monitor was not reached or a watchdog fired. known_findings.json lists open findings and fixed defects.",
}
with open(os.path.join(HERE, "MANIFEST.json"), "w") as f:
    json.dump(manifest, f, indent=1)
    f.write("\n")
print("claimed:", [c["property_id"] for c in checks])
print("not claimed:", [n["property_id"] for n in na])
