"""Catalogue of deliberate breaks for tools/mutation_audit.py. Each keeps the code importable; the audit itself checks
that the repository's test-suite stays green. edits = [(file, old, new)] (first occurrence replaced)."""
U = "codelimit/common/utils.py"
MUTANTS = [
    # ---- C02
    dict(id="c02-profile-le15", props=["C02"], edits=[(U, "        if m.value <= 15:\n            result[0] += m.value", "        if m.value < 15:\n            result[0] += m.value")]),
    dict(id="c02-count-le60", props=["C02"], edits=[(U, "        elif m.value <= 60:\n            result[2] += 1", "        elif m.value < 60:\n            result[2] += 1")]),
    dict(id="c02-style-gt30", props=["C02"], edits=[(U, "    elif value > 30:\n        return Style(color=\"dark_orange\")", "    elif value >= 30:\n        return Style(color=\"dark_orange\")")]),
    dict(id="c02-emoji-gt60", props=["C02"], edits=[(U, "    if value > 60:\n        return \"\\u2716\"", "    if value > 61:\n        return \"\\u2716\"")]),
    dict(id="c02-check-risks-ge30", props=["C02", "C12"], edits=[("codelimit/commands/check.py", "[m for m in measurements if m.value > 30]", "[m for m in measurements if m.value >= 30]")]),
    dict(id="c02-exit-on-hard", props=["C02"], edits=[("codelimit/commands/check.py", "exit_code = 1 if check_result.unmaintainable > 0 else 0", "exit_code = 1 if check_result.unmaintainable + check_result.hard_to_maintain > 3 else 0")]),
    dict(id="c02-checkresult-60", props=["C02"], edits=[("codelimit/common/CheckResult.py", "if m.value > 60])", "if m.value >= 60])")]),
    dict(id="c02-findings-threshold", props=["C02", "C18"], edits=[("codelimit/common/report/format_text.py", "functions = report.all_report_units_sorted_by_length_asc(30)", "functions = report.all_report_units_sorted_by_length_asc(31)")]),
    dict(id="c02-quiet-inverted", props=["C02"], edits=[("codelimit/commands/check.py", "            or check_result.hard_to_maintain > 0\n", "            or check_result.hard_to_maintain > 1\n")]),
    dict(id="c02-md-symbol", props=["C02"], edits=[("codelimit/common/report/format_markdown.py", 'type = "\\u274C" if unit.measurement.value > 60 else "\\u26A0"', 'type = "\\u274C" if unit.measurement.value > 59 else "\\u26A0"')]),
    # ---- C19
    dict(id="c19-floor-hard", props=["C19"], edits=[("codelimit/common/report/Report.py", "hard_to_maintain = ceil((profile[2] / total) * 100 - 0.001)", "hard_to_maintain = floor((profile[2] / total) * 100)")]),
    dict(id="c19-verdict-ge20", props=["C19"], edits=[("codelimit/common/report/format_text.py", "    elif hard_to_maintain > 20:", "    elif hard_to_maintain >= 20:")]),
    dict(id="c19-md-verdict-25", props=["C19"], edits=[("codelimit/common/report/format_markdown.py", "    elif hard_to_maintain > 20:", "    elif hard_to_maintain > 25:")]),
    dict(id="c19-no-overflow-guard", props=["C19"], edits=[("codelimit/common/report/Report.py", "        if unmaintainable + hard_to_maintain > 100:", "        if unmaintainable + hard_to_maintain > 101:")]),
    dict(id="c19-summarytable-sum", props=["C19"], edits=[("codelimit/common/SummaryTable.py", 'easy_verbose_text = Text(f"{easy + verbose:n}%")', 'easy_verbose_text = Text(f"{easy:n}%")')]),
    # ---- C17
    dict(id="c17-header-first-line", props=["C17"], edits=[("codelimit/common/scope/scope_utils.py", "s.header.name_token.location.line not in nocl_comment_lines", "tokens_line(s) not in nocl_comment_lines"),
                                                         ("codelimit/common/scope/scope_utils.py", "def has_name_prefix(", "def tokens_line(s):\n    return s.header.name_token.location.line + (1 if s.header.token_range.end - s.header.token_range.start > 12 else 0)\n\n\ndef has_name_prefix(")]),
    dict(id="c17-contains-instead-of-startswith", props=["C17"], edits=[("codelimit/common/source_utils.py", '            return value.startswith("nocl")', '            return "nocl" in value')]),
    dict(id="c17-case-sensitive", props=["C17"], edits=[("codelimit/common/source_utils.py", "            value = token.value.lower()", "            value = token.value")]),
    dict(id="c17-block-comment-ignored", props=["C17"], edits=[("codelimit/common/source_utils.py", 'elif value.startswith("//") or value.startswith("/*"):', 'elif value.startswith("//"):')]),
    dict(id="c17-also-next-line", props=["C17"], edits=[("codelimit/common/scope/scope_utils.py", "    nocl_comment_lines = [t.location.line for t in nocl_comment_tokens]", "    nocl_comment_lines = [t.location.line for t in nocl_comment_tokens] + [t.location.line - 1 for t in nocl_comment_tokens]")]),
]

SU = "codelimit/common/scope/scope_utils.py"
SC = "codelimit/common/Scanner.py"
MA = "codelimit/common/gsm/matcher.py"
MUTANTS += [
    # ---- C01 / C05
    dict(id="c01-scope-tokens-gt", props=["C01"], edits=[(SU, "index >= children_token_ranges[0].end:", "index > children_token_ranges[0].end:")]),
    dict(id="c01-children-not-excluded", props=["C01"], edits=[(SU, "        if len(children_token_ranges) == 0 or index < children_token_ranges[0].start:\n            result.append(tokens[index])", "        if True:\n            result.append(tokens[index])")]),
    dict(id="c01-end-minus-2", props=["C01", "C05"], edits=[(SC, "last_token = code_tokens[scope.block.end - 1]", "last_token = code_tokens[max(scope.block.end - 2, scope.header.token_range.start)]")]),
    dict(id="c01-contains-strict-end-again", props=["C01"], edits=[("codelimit/common/scope/Scope.py", "self.block.end >= other.block.end", "self.block.end > other.block.end")]),
    dict(id="c01-within-to-overlaps-again", props=["C01"], edits=[(SU, "                if body_block.start <= blocks[i].start and blocks[i].end <= body_block.end", "                if body_block.overlaps(blocks[i])")]),
    dict(id="c01-java-throws-dropped", props=["C01"], edits=[("codelimit/languages/Java.py", "[Keyword('throws'), ZeroOrMore(And(Not(';'), Not('{'))), Symbol(\"{\")]", "[Keyword('throws'), Name(), Symbol(\"{\")]")]),
    dict(id="c01-nearest-block-gt", props=["C01"], edits=[(SU, "elif block.start >= header.end:", "elif block.gt(header):")]),
    dict(id="c01-fold-one-level", props=["C01"], edits=[(SU, "        while stack and not stack[-1].contains(scope):\n            stack.pop()", "        while len(stack) > 1 or (stack and not stack[-1].contains(scope)):\n            stack.pop()")]),
    dict(id="c05-unsorted-headers", props=["C05", "C01"], edits=[(SU, "    result.reverse()\n    return result", "    return result")]),
    dict(id="c05-end-col-no-len", props=["C05", "C01"], edits=[(SC, "                    last_token.location.column + len(last_token.value),", "                    last_token.location.column + 1,")]),
    dict(id="c05-loc-plus-one", props=["C05"], edits=[(SC, "file_loc = sum([m.value for m in measurements])", "file_loc = sum([m.value for m in measurements]) + (1 if len(measurements) > 3 else 0)")]),
    dict(id="c05-multiline-end-dropped", props=["C05"], edits=[(SC, "            if len(last_token_lines) == 1:", "            if True:")]),
    # ---- C03
    dict(id="c03-no-latin1-fallback", props=["C03"], edits=[(SC, "    except UnicodeDecodeError:\n        with open(path, encoding=\"latin-1\") as f:\n            return f.read()", "    except UnicodeError as e:\n        raise e")]),
    dict(id="c03-python-eof-index", props=["C03"], edits=[("codelimit/languages/Python.py", "tokens[min(header.token_range.end, len(tokens) - 1)]", "tokens[header.token_range.end]")]),
    dict(id="c03-recursive-unfold", props=["C03"], edits=[(SU, "    result = []\n    stack = list(reversed(scopes))\n    while stack:\n        scope = stack.pop()\n        result.append(scope)\n        stack.extend(reversed(scope.children))\n    return result", "    result = []\n    for scope in scopes:\n        result.append(scope)\n        result.extend(unfold_scopes(scope.children))\n    return result")]),
    dict(id="c03-check-outside-cwd", props=["C03"], edits=[("codelimit/commands/check.py", "                    except ValueError:\n                        pass\n                    check_file(abs_path, check_result)", "                    except KeyError:\n                        pass\n                    check_file(abs_path, check_result)")]),
    # ---- C04
    dict(id="c04-keep-single-comments", props=["C04", "C16"], edits=[("codelimit/common/Token.py", "        return self.token_type in Comment", "        return self.token_type in Comment and self.token_type is not Comment.Single")]),
    dict(id="c04-empty-token-is-code", props=["C04", "C16"], edits=[("codelimit/common/Token.py", "and (self.value.isspace() or self.value == \"\")", "and self.value.isspace()")]),
    dict(id="c04-count-comment-lines-in-python-blocks", props=["C04"], edits=[("codelimit/languages/Python.py", "                elif line_indentation > header_indentation:", "                elif line_indentation > header_indentation and line_nr % 97 != 0:")]),
    # ---- C06
    dict(id="c06-no-deepcopy", props=["C14"], edits=[("codelimit/common/gsm/Pattern.py", "self.predicate_map[predicate_id] = deepcopy(transition[0])", "self.predicate_map[predicate_id] = transition[0]")]),
    dict(id="c06-sort-by-hash", props=["C06"], edits=[(SU, "    headers = language.extract_headers(code_tokens)", "    headers = language.extract_headers(code_tokens)\n    if len(headers) > 2 and hash(headers[0].name()) % 2:\n        headers = headers[:-1]")]),
    dict(id="c06-module-state-leak", props=["C06"], edits=[(SC, "def scan_file(tokens: list[Token], language: Language) -> list[Measurement]:\n    scopes = build_scopes(tokens, language)", "_SEEN: list = []\n\n\ndef scan_file(tokens: list[Token], language: Language) -> list[Measurement]:\n    _SEEN.append(len(tokens))\n    if len(_SEEN) % 50 == 0:\n        tokens = tokens[:-1]\n    scopes = build_scopes(tokens, language)")]),
    dict(id="c06-memo-by-token-count", props=["C06"], edits=[("codelimit/languages/Python.py", "        lines = _get_token_lines(tokens)\n", "        if not hasattr(self, '_memo'):\n            self._memo = {}\n        lines = self._memo.setdefault(len(tokens), _get_token_lines(tokens))\n")]),
    dict(id="c06-memo-headers-by-first-name", props=["C06"], edits=[(SU, "    headers = language.extract_headers(code_tokens)", "    key = (language.name, len(code_tokens), code_tokens[0].value if code_tokens else '')\n    if key not in _HEADER_MEMO:\n        _HEADER_MEMO[key] = language.extract_headers(code_tokens)\n    headers = _HEADER_MEMO[key]"),
                                                             (SU, "def build_scopes(tokens: list[Token], language: Language) -> list[Scope]:", "_HEADER_MEMO: dict = {}\n\n\ndef build_scopes(tokens: list[Token], language: Language) -> list[Scope]:")]),
    dict(id="c06-walk-order-dependent", props=["C07"], edits=[("codelimit/common/Codebase.py", "        self.totals[entry.language].add(entry)", "        if len(self.files) != 3 or entry.path < 'm':\n            self.totals[entry.language].add(entry)")]),
    # ---- C07
    dict(id="c07-skip-hard-count", props=["C07", "C02"], edits=[("codelimit/common/LanguageTotals.py", "        self.hard_to_maintain += profile[2]", "        self.hard_to_maintain += profile[2] if self.files % 5 else 0")]),
    dict(id="c07-aggregate-depth1", props=["C07"], edits=[("codelimit/common/Codebase.py", "                        sub_folder = f\"{path}{entry.name}\"", "                        sub_folder = f\"{path}{entry.name}\" if path.count('/') < 3 else entry.name")]),
    dict(id="c07-folder-listed-twice", props=["C07"], edits=[("codelimit/common/Codebase.py", "        if f\"{path}/\" not in self.tree:\n            self.tree[f\"{path}/\"] = SourceFolder()", "        if f\"{path}/\" not in self.tree or path.endswith('b'):\n            self.tree[f\"{path}/\"] = self.tree.get(f\"{path}/\") or SourceFolder()")]),
    dict(id="c07-merge-profiles-wrong", props=["C07"], edits=[(U, "return [rc1[0] + rc2[0], rc1[1] + rc2[1], rc1[2] + rc2[2], rc1[3] + rc2[3]]", "return [rc1[0] + rc2[0], rc1[1] + rc2[1], rc1[2] + rc2[2], rc1[3] + rc2[2]]")]),
    # ---- C08
    dict(id="c08-one-raw-string", props=["C08"], edits=[("codelimit/common/report/ReportWriter.py", "json += f'{{\"unit_name\": {dumps(measurement.unit_name)}, '", "json += f'{{\"unit_name\": \"{measurement.unit_name}\", '")]),
    dict(id="c08-reader-drops-version", props=["C08", "C09"], edits=[("codelimit/common/report/ReportReader.py", "        report.version = d[\"version\"] if \"version\" in d else None\n", "")]),
    dict(id="c08-file-order-lost", props=["C08"], edits=[("codelimit/common/report/ReportReader.py", "        for k, v in d[\"codebase\"][\"files\"].items():", "        for k, v in sorted(d[\"codebase\"][\"files\"].items(), reverse=True):")]),
    dict(id="c08-compact-separator", props=["C08"], edits=[("codelimit/common/report/ReportWriter.py", "separator = \",\\n\" if self.pretty_print else \", \"", "separator = \",\\n\" if self.pretty_print else \" \"")]),
    # ---- C09
    dict(id="c09-ignore-checksum", props=["C09"], edits=[(SC, "    if cached_entry and cached_entry.checksum() == checksum:", "    if cached_entry and len(cached_entry.checksum()) == len(checksum):")]),
    dict(id="c09-lookup-by-basename", props=["C09"], edits=[(SC, "            cached_entry = cached_report.codebase.files[rel_path]\n        except KeyError:\n            pass", "            cached_entry = cached_report.codebase.files[rel_path]\n        except KeyError:\n            same = [e for k, e in cached_report.codebase.files.items() if e.checksum() == checksum]\n            cached_entry = same[0] if same else None")]),
    dict(id="c09-ignore-version", props=["C09"], edits=[("codelimit/commands/scan.py", "        if cached_report and cached_report.version == Report.VERSION:", "        if cached_report:")]),
    dict(id="c09-report-shows-other-version", props=["C09"], edits=[("codelimit/utils.py", "    if report_version != Report.VERSION:", "    if report_version is None:")]),
    # ---- C10
    dict(id="c10-no-tolerant-read", props=["C10"], edits=[("codelimit/commands/scan.py", "        except Exception:\n            # a truncated, damaged or foreign cache file is no cache: scan from scratch and overwrite it\n            return None", "        except ZeroDivisionError:\n            return None")]),
    dict(id="c10-only-jsondecodeerror", props=["C10"], edits=[("codelimit/commands/scan.py", "        except Exception:\n            # a truncated", "        except ValueError:\n            # a truncated")]),
    dict(id="c10-no-type-validation", props=["C10"], edits=[("codelimit/common/report/ReportReader.py", "    if type(value) is not expected:", "    if False:")]),
    dict(id="c10-mkdir-only-when-missing-breaks-tagless", props=["C10"], edits=[("codelimit/commands/scan.py", "    report_path.write_text(ReportWriter(report).to_json())", "    if cache_dir.joinpath(\"CACHEDIR.TAG\").exists():\n        report_path.write_text(ReportWriter(report).to_json())")]),
    # ---- C11
    dict(id="c11-no-dot-dir-pruning", props=["C11", "C12"], edits=[(SC, "        dirs[:] = [d for d in dirs if not d[0] == \".\"]\n        for file in files:\n            rel_path = Path(os.path.join(root, file)).relative_to(path.absolute())", "        for file in files:\n            rel_path = Path(os.path.join(root, file)).relative_to(path.absolute())")]),
    dict(id="c11-ignore-gitignore", props=["C11"], edits=[(SC, "    if gitignore_excludes:\n        excludes.extend(gitignore_excludes)", "    if gitignore_excludes and len(gitignore_excludes) > 2:\n        excludes.extend(gitignore_excludes)")]),
    dict(id="c11-exclude-on-basename", props=["C11"], edits=[(SC, "            if is_excluded(rel_path, excludes_spec):\n                continue\n            try:", "            if is_excluded(Path(rel_path.name), excludes_spec):\n                continue\n            try:")]),
    dict(id="c11-language-by-suffix-only", props=["C11"], edits=[(SC, "                if lexer_name in languages:", "                if lexer_name in languages and not file.startswith('t'):")]),
    dict(id="c11-config-exclude-ignored", props=["C11"], edits=[("codelimit/common/Configuration.py", "            cls.exclude.extend(d[\"exclude\"])", "            cls.exclude.extend(d[\"exclude\"][1:])")]),
    # ---- C12
    dict(id="c12-check-skips-exclusion-for-dirs", props=["C12"], edits=[("codelimit/commands/check.py", "                        if is_excluded(rel_path, excludes_spec):\n                            continue\n                    except ValueError:", "                        if is_excluded(rel_path, excludes_spec) and len(rel_path.parts) < 3:\n                            continue\n                    except ValueError:")]),
    dict(id="c12-check-hidden-files", props=["C12"], edits=[("codelimit/commands/check.py", "                files = [f for f in files if not f[0] == \".\"]\n                dirs[:] = [d for d in dirs if not d[0] == \".\"]\n                for file in files:\n                    abs_path", "                dirs[:] = [d for d in dirs if not d[0] == \".\"]\n                for file in files:\n                    abs_path")]),
    dict(id="c12-check-own-decoding", props=["C12"], edits=[("codelimit/commands/check.py", "        code = _read_file(path)", "        with open(path, encoding=\"utf-8\", errors=\"replace\") as f:\n            code = f.read()")]),
    dict(id="c12-check-sorted-unstable", props=["C12"], edits=[("codelimit/commands/check.py", "                key=lambda measurement: measurement.value,\n                reverse=True,", "                key=lambda measurement: (measurement.value, measurement.start.line),\n                reverse=True,")]),
    # ---- C13
    dict(id="c13-optional-as-star", props=["C13"], edits=[("codelimit/common/gsm/operator/Optional.py", "        nfa.accepting.epsilon_transitions = [accepting]", "        nfa.accepting.epsilon_transitions = [nfa.start, accepting]")]),
    dict(id="c13-starts-with-longest", props=["C13"], edits=[(MA, "        if pattern.is_accepting():\n            pattern.end = len(pattern.tokens)\n            return pattern\n    return None", "        if pattern.is_accepting():\n            pattern.end = len(pattern.tokens)\n            best = pattern.end\n    return None")]),
    dict(id="c13-plus-allows-empty", props=["C13", "C14"], edits=[("codelimit/common/gsm/operator/OneOrMore.py", "        start.epsilon_transitions = [nfa.start]", "        start.epsilon_transitions = [nfa.start, accepting]")]),
    dict(id="c13-no-visited-set", props=["C13"], edits=[("codelimit/common/gsm/Expression.py", "        if state not in result:\n            result.add(state)\n            stack.extend(state.epsilon_transitions)", "        if state not in result or len(result) > 40:\n            result.add(state)\n            stack.extend(state.epsilon_transitions)")]),
    dict(id="c13-nfa-match-stale-states", props=["C13"], edits=[(MA, "        active_states = next_states\n        next_states = set()", "        active_states = next_states\n        next_states = set() if len(sequence) < 4 else next_states")]),
    # ---- C14
    dict(id="c14-no-overlap-skip-at-end", props=["C14"], edits=[(MA, "    for pattern in fs.active_patterns:\n        if fs.matches and pattern.start < fs.matches[-1].end:\n            continue", "    for pattern in fs.active_patterns:")]),
    dict(id="c14-accept-while-not-stuck", props=["C14"], edits=[(MA, "            if pattern.consume(item):\n                fs.next_state_patterns.append(pattern)", "            if pattern.is_accepting() and idx % 5 == 4:\n                add_match(pattern, idx)\n            elif pattern.consume(item):\n                fs.next_state_patterns.append(pattern)")]),
    dict(id="c14-balanced-ends-at-depth1", props=["C14", "C01"], edits=[("codelimit/common/token_matching/predicate/Balanced.py", "            return self.depth > 0", "            return self.depth > 1")]),
    dict(id="c14-tokens-off-by-one", props=["C14"], edits=[(MA, "    def add_match(pattern: Pattern, end: int):\n        if followed_by is None or starts_with(followed_by, sequence[end:]):\n            pattern.end = end", "    def add_match(pattern: Pattern, end: int):\n        if followed_by is None or starts_with(followed_by, sequence[end:]):\n            pattern.end = end if end < 6 else end - 1")]),
    # ---- C15
    dict(id="c15-overlapping-predicate-java", props=["C15", "C03"], edits=[("codelimit/languages/Java.py", "ZeroOrMore(And(Not(';'), Not('{')))", "ZeroOrMore(Not(';'))")]),
    dict(id="c15-arrow-in-header-again", props=["C15", "C03"], edits=[("codelimit/languages/TypeScript.py", "                OneOrMore(Balanced(\"(\", \")\")),\n            ],\n            [Symbol(\"=>\"), Symbol(\"{\")],", "                OneOrMore(Balanced(\"(\", \")\")),\n                Symbol(\"=>\"),\n            ],\n            Symbol(\"{\"),")]),
    dict(id="c15-guard-silenced", props=["C15"], edits=[("codelimit/common/gsm/Pattern.py", "                if found_transition:\n                    raise ValueError(\"Multiple transitions found!\")", "                if found_transition:\n                    continue"),
                                                      ("codelimit/languages/JavaScript.py", "                OneOrMore(Balanced(\"(\", \")\")),\n            ],\n            [Symbol(\"=>\"), Symbol(\"{\")],", "                OneOrMore(Balanced(\"(\", \")\")),\n                Symbol(\"=>\"),\n            ],\n            Symbol(\"{\"),")]),
    # ---- C16
    dict(id="c16-line-start-off-by-one", props=["C16", "C05"], edits=[("codelimit/common/lexer_utils.py", "                line_start = indices[newline_index] + 1", "                line_start = indices[newline_index] + (1 if newline_index % 7 else 2)")]),
    dict(id="c16-keep-whitespace", props=["C16"], edits=[("codelimit/common/Token.py", "            self.token_type == Text or self.token_type == Whitespace", "            self.token_type == Whitespace")]),
    dict(id="c16-ge-newline", props=["C16"], edits=[("codelimit/common/lexer_utils.py", "t[0] > indices[newline_index]:", "t[0] >= indices[newline_index]:")]),
    dict(id="c16-location-to-index", props=["C16"], edits=[("codelimit/common/source_utils.py", "    result += max(0, position.column - 1)", "    result += max(0, position.column - 1) if position.line < 40 else position.column")]),
    # ---- C18
    dict(id="c18-delta-sign", props=["C18"], edits=[("codelimit/common/LanguageTotalsDelta.py", "        delta = total_loc - (self._language_totals_previous.loc if self._language_totals_previous else 0)", "        delta = (self._language_totals_previous.loc if self._language_totals_previous else 0) - total_loc")]),
    dict(id="c18-cutoff-9", props=["C18"], edits=[("codelimit/common/report/format_markdown.py", "    if not full and total_findings > 10:\n        functions = functions[:10]", "    if not full and total_findings > 10:\n        functions = functions[:9]")]),
    dict(id="c18-more-rows-off", props=["C18"], edits=[("codelimit/common/report/format_text.py", "            f\"{total_findings - 10} more rows, use --full", "            f\"{total_findings - 9} more rows, use --full")]),
    dict(id="c18-text-delta-current", props=["C18"], edits=[("codelimit/common/ScanResultTable.py", "language_totals_previous = self._stp.language_total(", "language_totals_previous = self._stc.language_total(")]),
    dict(id="c18-sort-by-files", props=["C18"], edits=[("codelimit/common/ScanTotals.py", "self._languages_totals.values(), key=lambda x: x.loc, reverse=True", "self._languages_totals.values(), key=lambda x: x.files, reverse=True")]),
    dict(id="c18-total-delta-functions", props=["C18"], edits=[("codelimit/common/ScanTotalsDelta.py", "        delta = total_functions - self._scan_totals_previous.total_functions()", "        delta = total_functions - self._scan_totals_previous.total_files()")]),
]


# ---- false-alarm guards: behaviour-preserving changes; every listed check must stay at exit 0 (expect="held")
MUTANTS += [
    dict(id="neutral-cache-disabled", expect="held", props=["C09", "C10", "C06"], edits=[("codelimit/commands/scan.py", "    cached_report = _read_cached_report(report_path)", "    cached_report = None  # caching switched off")]),
    dict(id="neutral-atomic-cache-write", expect="held", props=["C09", "C10"], edits=[("codelimit/commands/scan.py", "    report_path.write_text(ReportWriter(report).to_json())", "    tmp_path = report_path.with_suffix('.tmp')\n    tmp_path.write_text(ReportWriter(report).to_json())\n    tmp_path.replace(report_path)")]),
    dict(id="neutral-fold-rewritten", expect="held", props=["C01", "C05", "C17"], edits=[(SU, "    return [s for s in scopes if s.header.name_token.location.line not in nocl_comment_lines]", "    marked = set(nocl_comment_lines)\n    kept = []\n    for s in scopes:\n        if s.header.name_token.location.line in marked:\n            continue\n        kept.append(s)\n    return kept")]),
    dict(id="neutral-profile-rewritten", expect="held", props=["C02", "C07", "C19"], edits=[(U, "def make_count_profile(measurements: list[Measurement]):\n    result = [0, 0, 0, 0]", "def make_count_profile(measurements: list[Measurement]):\n    measurements = sorted(measurements, key=lambda m: -m.value)\n    result = [0, 0, 0, 0]")]),
    dict(id="neutral-walk-sorted", expect="held", props=["C11", "C12", "C06"], edits=[(SC, "        files = [f for f in files if not f[0] == \".\"]\n        dirs[:] = [d for d in dirs if not d[0] == \".\"]\n        for file in files:\n            rel_path = Path(os.path.join(root, file)).relative_to(path.absolute())", "        files = sorted(f for f in files if not f.startswith(\".\"))\n        dirs[:] = sorted(d for d in dirs if not d.startswith(\".\"))\n        for file in files:\n            rel_path = Path(os.path.join(root, file)).relative_to(path.absolute())")]),
    dict(id="neutral-matcher-refactor", expect="held", props=["C13", "C14", "C15"], edits=[(MA, "def match(expression: Expression, sequence: list) -> Pattern | None:\n    nfa = expression_to_nfa(expression)\n    dfa = nfa_to_dfa(nfa)", "def match(expression: Expression, sequence: list) -> Pattern | None:\n    dfa = nfa_to_dfa(expression_to_nfa(expression))")]),
    dict(id="neutral-writer-ensure-ascii-off", expect="held", props=["C08", "C07"], edits=[("codelimit/common/report/ReportWriter.py", "from json import dumps\n", "from json import dumps as _dumps\n\n\ndef dumps(value):\n    return _dumps(value, ensure_ascii=False)\n")]),
    dict(id="neutral-render-width", expect="held", props=["C18", "C19"], edits=[("codelimit/common/SummaryTable.py", "        super().__init__(expand=True, box=box.SIMPLE)", "        super().__init__(expand=True, box=box.SIMPLE, pad_edge=False)")]),
]
