"""Catalogue of deliberate breaks for tools/mutation_audit.py. Each keeps the code importable; the audit itself checks
that the repository's test-suite stays green. edits = [(file, old, new)] (first occurrence replaced)."""
U = "codelimit/common/utils.py"
MUTANTS = [
    # ---- C02
    dict(id="c02-profile-le15", props=["C02"], edits=[(U, "        if m.value <= 15:\n            result[0] += m.value", "        if m.value < 15:\n            result[0] += m.value")]),
    dict(id="c02-count-le60", props=["C02"], edits=[(U, "        elif m.value <= 60:\n            result[2] += 1", "        elif m.value < 60:\n            result[2] += 1")]),
    dict(id="c02-style-gt30", props=["C02"], edits=[(U, "    elif value > 30:\n        return Style(color=\"dark_orange\")", "    elif value >= 30:\n        return Style(color=\"dark_orange\")")]),
    dict(id="c02-emoji-gt60", props=["C02"], edits=[(U, "    if value > 60:\n        return \"\\u2716\"", "    if value > 61:\n        return \"\\u2716\"")]),
    dict(id="c02-check-risks-ge30", props=["C02", "C12"], edits=[("codelimit/commands/check.py", "[m for m in measurements if m.value > 30]", "[m for m in measurements if m.value >= 30]")]),
    dict(id="c02-exit-on-hard", props=["C02"], edits=[("codelimit/commands/check.py", "exit_code = 1 if check_result.unmaintainable > 0 else 0", "exit_code = 1 if check_result.unmaintainable + check_result.hard_to_maintain > 3 else 0")]),
    dict(id="c02-checkresult-60", props=["C02"], edits=[("codelimit/common/CheckResult.py", "if m.value > 60])", "if m.value >= 60])")]),
    dict(id="c02-findings-threshold", props=["C02", "C18"], edits=[("codelimit/common/report/format_text.py", "functions = report.all_report_units_sorted_by_length_asc(30)", "functions = report.all_report_units_sorted_by_length_asc(31)")]),
    dict(id="c02-quiet-inverted", props=["C02"], edits=[("codelimit/commands/check.py", "            or check_result.hard_to_maintain > 0\n", "            or check_result.hard_to_maintain > 1\n")]),
    dict(id="c02-md-symbol", props=["C02", "C18"], edits=[("codelimit/common/report/format_markdown.py", 'type = "\\u274C" if unit.measurement.value > 60 else "\\u26A0"', 'type = "\\u274C" if unit.measurement.value > 59 else "\\u26A0"')]),
    # ---- C19
    dict(id="c19-floor-hard", props=["C19"], edits=[("codelimit/common/report/Report.py", "hard_to_maintain = ceil((profile[2] / total) * 100 - 0.001)", "hard_to_maintain = floor((profile[2] / total) * 100)")]),
    dict(id="c19-verdict-ge20", props=["C19"], edits=[("codelimit/common/report/format_text.py", "    elif hard_to_maintain > 20:", "    elif hard_to_maintain >= 20:")]),
    dict(id="c19-md-verdict-25", props=["C19"], edits=[("codelimit/common/report/format_markdown.py", "    elif hard_to_maintain > 20:", "    elif hard_to_maintain > 25:")]),
    dict(id="c19-no-overflow-guard", props=["C19"], edits=[("codelimit/common/report/Report.py", "        if unmaintainable + hard_to_maintain > 100:", "        if unmaintainable + hard_to_maintain > 101:")]),
    dict(id="c19-summarytable-sum", props=["C19"], edits=[("codelimit/common/SummaryTable.py", 'easy_verbose_text = Text(f"{easy + verbose:n}%")', 'easy_verbose_text = Text(f"{easy:n}%")')]),
    # ---- C17
    dict(id="c17-header-first-line", props=["C17"], edits=[("codelimit/common/scope/scope_utils.py", "s.header.name_token.location.line not in nocl_comment_lines", "tokens_line(s) not in nocl_comment_lines"),
                                                         ("codelimit/common/scope/scope_utils.py", "def has_name_prefix(", "def tokens_line(s):\n    return s.header.name_token.location.line + (1 if s.header.token_range.end - s.header.token_range.start > 12 else 0)\n\n\ndef has_name_prefix(")]),
    dict(id="c17-contains-instead-of-startswith", props=["C17"], edits=[("codelimit/common/source_utils.py", '            return value.startswith("nocl")', '            return "nocl" in value')]),
    dict(id="c17-case-sensitive", props=["C17"], edits=[("codelimit/common/source_utils.py", "            value = token.value.lower()", "            value = token.value")]),
    dict(id="c17-block-comment-ignored", props=["C17"], edits=[("codelimit/common/source_utils.py", 'elif value.startswith("//") or value.startswith("/*"):', 'elif value.startswith("//"):')]),
    dict(id="c17-also-next-line", props=["C17"], edits=[("codelimit/common/scope/scope_utils.py", "    nocl_comment_lines = [t.location.line for t in nocl_comment_tokens]", "    nocl_comment_lines = [t.location.line for t in nocl_comment_tokens] + [t.location.line - 1 for t in nocl_comment_tokens]")]),
]
