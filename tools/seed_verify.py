#!/venv/bin/python
"""tools/seed_verify.py <worktree> <seeded-name> <property> "<what it needs to manifest>" <check ids...>
Confirms an independently written breaking change myself and records the outcome in /verif/seeded/<name>/meta.json:
  1. the repository's test-suite passes in the worktree WITH the change,
  2. the demonstration fails (exit 1) with the change and passes (exit 0) after `git stash` of the source change,
  3. the listed quick checks are run against the worktree (VERIF_REPO) and their exit codes recorded.
"""
import json
import os
import subprocess
import sys
import time

wt, name, prop, needs = sys.argv[1:5]
checks = sys.argv[5:]
HERE = os.path.dirname(os.path.dirname(os.path.abspath(__file__)))
env = dict(os.environ, PYTHONPATH=wt)
PY = "/venv/bin/python"


def sh(cmd, **kw):
    return subprocess.run(cmd, shell=True, capture_output=True, text=True, **kw)


suite = sh(f"cd {wt} && {PY} -m pytest -q -p no:cacheprovider 2>&1 | tail -1", env=env).stdout.strip()
with_change = sh(f"cd {wt} && {PY} seed_demo.py", env=env)
# (no `git stash`: the stash is shared by all worktrees of a repository)
patch = os.path.join(HERE, "seeded", name, "patch.diff")
assert sh(f"git -C {wt} diff -- codelimit").stdout == open(patch).read(), "worktree change differs from the recorded patch.diff"
sh(f"git -C {wt} checkout -- codelimit")
try:
    without = sh(f"cd {wt} && {PY} seed_demo.py", env=env)
finally:
    assert sh(f"git -C {wt} apply {patch}").returncode == 0
results = {}
for c in checks:
    t0 = time.time()
    r = sh(f"cd {HERE} && VERIF_REPO={wt} VF_EVIDENCE_DIR=/tmp/vf-seed-ev ./check {c} quick")
    kinds = sorted({ln.strip().split(" = ")[0].replace("violations.", "") for ln in r.stdout.split("\n") if ln.strip().startswith("violations.")})
    results[c] = {"exit": r.returncode, "caught": r.returncode == 1 and "VIOLATION property=" in r.stdout, "violation_kinds": kinds,
                  "wall_s": round(time.time() - t0, 1)}
meta = {
    "id": name, "property": prop, "author": "independent sub-agent given only the property text and its own worktree",
    "needs_to_manifest": needs,
    "files_changed": sh(f"git -C {wt} diff --stat -- codelimit | tail -1").stdout.strip(),
    "confirmed": {
        "test_suite_with_change": suite,
        "demo_with_change": {"exit": with_change.returncode, "last_line": (with_change.stdout.strip().split("\n") or [""])[-1][:300]},
        "demo_without_change": {"exit": without.returncode, "last_line": (without.stdout.strip().split("\n") or [""])[-1][:300]},
    },
    "quick_checks_against_the_change": results,
    "ran": f"suite + seed_demo.py (with / without change) in the scratch worktree; ./check <ID> quick with VERIF_REPO=<worktree> at /verif commit "
           + sh(f"git -C {HERE} rev-parse --short HEAD").stdout.strip() + " (+ working tree)",
}
out = os.path.join(HERE, "seeded", name, "meta.json")
existing = {}
if os.path.exists(out):
    existing = json.load(open(out))
if "first_run_before_strengthening" in existing:
    meta["first_run_before_strengthening"] = existing["first_run_before_strengthening"]
with open(out, "w") as f:
    json.dump(meta, f, indent=1)
print(name, suite, "| demo with:", with_change.returncode, "without:", without.returncode, "|", {c: r["caught"] for c, r in results.items()})
